"""C12 — fixed-layout composition helpers rewrite the text exactly as documented.

Decided statically: every acyclic MIR path of the key-value processor on which the old vowel-sign
order option is not taken is summarised as (recognised predicates over the entry state, ordered
effects on the composed text); an independent transcription of the documented rule list is evaluated
in three-valued logic over each path's predicates and its expected effects are compared with the
extracted ones.  This covers the priority chain, every rule's effect, the two vowel tables and all
their interactions on every path — without executing anything.  Plus: the character classes as sets,
plain back-space = one pop, the pending-sign machinery is unreachable with the option off.
Not decided: multi-code-point key values that *start* with a vowel sign (the statement speaks of a
vowel sign being typed)."""
from engine.mir import E, apath, strip_refs, is_const, const_val, callee_name, self_path
from engine.analyses import (peel_conv, contains_call, ModSets, PathLimit)
from engine.report import site_of
from . import common, builders, classes, kvp, c06

R_, HASANTA, CHANDRA, ZWJ, ZWNJ, LENGTH_MARK, OU = "র", "্", "ঁ", "‍", "‌", "ৗ", "ঔ"
PAIRS = {s: chr(ord(s) - 0x38) for s in classes.SIGNS10}          # Unicode's own sign ↔ independent vowel pairing …
PAIRS.update({"\u09c4": "\u09e0", "\u09e2": "\u098c", "\u09e3": "\u09e1"})      # … the Sanskrit signs are paired out of line: ৄ ↔ ৠ, ৢ ↔ ঌ, ৣ ↔ ৡ
TABLE = dict(PAIRS)      # rows demanded: narrowed in run() to the signs the vowel-sign predicate accepts (at least the ten); rows allowed: every pair
# "punctuation": every ASCII punctuation character and the two Dari marks (any layout file may assign any of them to a key)
CORE_MARKS = set("!\"#$%&'()*+,-./:;<=>?@[\\]^_`{|}~\u0964\u0965")


def t_and(*xs):
    if any(x is False for x in xs):
        return False
    if all(x is True for x in xs):
        return True
    return None


def t_or(*xs):
    if any(x is True for x in xs):
        return True
    if all(x is False for x in xs):
        return False
    return None


def t_not(x):
    return None if x is None else (not x)


MARK_SETS = {}          # predicate name -> its members as a string (filled by mark_predicates)
BENGALI_CLASSES = ("is_vowel", "is_kar", "is_pure_consonant", "is_ligature_making_kar", "is_left_standing_kar")


def mark_predicates(prog):
    """char → bool predicates that are not one of the Bengali classes and are true only for ASCII punctuation: evaluated as sets."""
    from engine.analyses import PredEval
    pe = PredEval(prog)
    MARK_SETS.clear()
    for name, k in classes.class_fns(prog).items():
        if name in BENGALI_CLASSES:
            continue
        dom = [chr(c) for c in range(0x20, 0x7f)] + ["ক", "া", "অ", "্", "ঁ", "।", "॥"]
        cs = pe.char_set(k, dom)
        import unicodedata as _ud
        if cs is not None and cs and all(_ud.category(c)[0] in "PS" and not c.isalnum() for c in cs):
            MARK_SETS[name] = "".join(sorted(cs))
    return MARK_SETS


class View:
    """Three-valued view of a path's atoms."""

    def __init__(self, s):
        self.s = s

    def T(self, *atom):
        v = self.s.val(tuple(atom))
        if v is None and atom and atom[0] in ("char_pred", "rmc_pred") and len(atom) == 2:
            # the class predicate was not tested on this path, but the character is identified (an `==` test or a match arm taken):
            # the predicate's value for that character is read from the predicate itself
            ident = self._identity("char" if atom[0] == "char_pred" else "rmc")
            pe, cls = MAP_EVAL.get("pe"), MAP_EVAL.get("cls") or {}
            if ident is not None and pe is not None and atom[1] in cls:
                r = pe.call(cls[atom[1]], [ord(ident)])
                if isinstance(r, bool):
                    return r
        return v

    def _identity(self, which):
        for a, val in self.s.atoms:
            if a[0] == which + "_eq" and val is True:
                return a[1]
        for a, val in self.s.atoms:
            if a[0] == which + "_switch" and val != "otherwise" and len(val) == 1:
                return chr(val[0])
        return None

    def cfg(self, name):
        return self.T("cfg", name)

    def _is(self, kind_eq, kind_sw, ch):
        v = self.T(kind_eq, ch)
        if v is not None:
            return v
        # a positive identification of another character decides it negatively
        for a, val in self.s.atoms:
            if a[0] == kind_eq and val is True and a[1] != ch:
                return False
        # every match on the character narrows it: an arm shared by several patterns (`A | B =>`) leaves those, `_ =>` excludes the listed ones
        cands = None
        for a, val in self.s.atoms:
            if a[0] == kind_sw:
                allv = a[1]
                if val == "otherwise":
                    if ord(ch) in allv:
                        return False
                else:
                    cands = set(val) if cands is None else (cands & set(val))
        if cands is not None:
            # … and what a later comparison or `_ =>` arm on the same path excludes is gone from the arm's patterns (`A | B` then `≠ A` is B)
            for a, val in self.s.atoms:
                if a[0] == kind_eq and val is False:
                    cands = cands - {ord(a[1])}
                elif a[0] == kind_sw and val == "otherwise":
                    cands = cands - set(a[1])
            if ord(ch) not in cands:
                return False
            if len(cands) == 1:
                return True
        return None

    def char_is(self, ch):
        return self._is("char_eq", "char_switch", ch)

    def rmc_is(self, ch):
        return self._is("rmc_eq", "rmc_switch", ch)

    def char_switch(self):
        """What the matches on the typed character say on this path, taken together: (excluded code points, 'otherwise') when only
        `_ =>` arms were taken, (listed, arm's code points) when some arm narrowed it; None without a match."""
        cands, excluded, seen = None, set(), False
        for a, val in self.s.atoms:
            if a[0] == "char_switch":
                seen = True
                if val == "otherwise":
                    excluded |= set(a[1])
                else:
                    cands = set(val) if cands is None else (cands & set(val))
        if not seen:
            return None
        if cands is None:
            return tuple(sorted(excluded)), "otherwise"
        return tuple(sorted(excluded | cands)), tuple(sorted(cands - excluded))

    def rmc_in_marks(self):
        for a, val in self.s.atoms:
            if a[0] == "rmc_in":
                return val, a[1]
        # the punctuation set written as a predicate function instead of a string literal
        for a, val in self.s.atoms:
            if a[0] == "rmc_pred" and a[1] in MARK_SETS:
                return val, MARK_SETS[a[1]]
        return None, None


class Undecided(Exception):
    pass


def need(x, what):
    if x is None:
        raise Undecided(what)
    return x


def expected_effects(v):
    """Independent transcription of the documented rules (old vowel-sign order off)."""
    if need(v.T("value_is", kvp.ZOFOLA), "whether the value is zo-fola"):
        c = need(t_and(v.rmc_is(R_), t_not(v.T("second_last_eq", HASANTA))), "bare র before zo-fola")
        return ([("push", ZWJ)] if c else []) + [("push_str", "<value>")]
    if need(t_and(v.T("value_is", kvp.REPH), v.cfg("get_fixed_old_reph")), "reph key ∧ old-reph option"):
        return [("call", "<reph>")]
    if need(v.T("char_some"), "whether the value has a first character"):
        if need(v.T("char_pred", "is_kar"), "whether the key is a vowel sign"):
            return kar_rules(v)
        if need(t_and(v.char_is(HASANTA), v.rmc_is(HASANTA)), "second hasanta"):
            return [("push", ZWNJ)] + REST
        if need(t_and(v.char_is(LENGTH_MARK), v.rmc_is(HASANTA)), "AU length mark after hasanta"):
            return [("pop",), ("push", OU)] + REST
    return [("push_str", "<value>")]


# a rule that acts on the first character of the key value keeps whatever the value has after it (nothing, for a one-character value)
REST = [("push_str", "<rest>")]


def kar_rules(v):
    """The documented rules for a vowel sign (shared with the old-order rule list of C14, which falls through to them)."""
    return _kar_rules(v) + REST


def _kar_rules(v):
    marks, lit = v.rmc_in_marks()
    av = t_and(v.cfg("get_fixed_automatic_vowel"), t_or(v.T("buf_empty"), v.T("rmc_pred", "is_vowel"), marks))
    if need(av, "automatic vowel forming (option ∧ (start ∨ after vowel ∨ after punctuation))"):
        return table_effect(v, False)
    if need(t_and(v.cfg("get_fixed_automatic_chandra"), v.rmc_is(CHANDRA)), "automatic chandrabindu (option ∧ after ঁ)"):
        return [("pop",), ("push", "<character>"), ("push", CHANDRA)]
    if need(v.rmc_is(HASANTA), "whether the sign follows a hasanta"):
        return table_effect(v, True)
    if need(t_and(v.cfg("get_fixed_traditional_kar"), v.T("rmc_pred", "is_pure_consonant")), "traditional joining (option ∧ after a consonant)"):
        lig = need(v.T("char_pred", "is_ligature_making_kar"), "whether the sign is ু ূ ৃ")
        return ([("push", ZWNJ)] if lig else []) + [("push", "<character>")]
    return [("push", "<character>")]


def _map_table(fn):
    """The char → Option<char> function `fn` as a finite map over the Bengali block (+ probes); None if it cannot be evaluated."""
    from engine.analyses import BENGALI_DOMAIN
    pe = MAP_EVAL.get("pe")
    if pe is None:
        return None
    out = {}
    for c in BENGALI_DOMAIN:
        r = pe.call(fn, [ord(c)])
        if not (isinstance(r, tuple) and r and r[0] in ("some", "none")):
            return None
        if r[0] == "some":
            if not isinstance(r[1], int):
                return None
            out[c] = chr(r[1])
    return out


MAP_EVAL = {}


def table_effect(v, after_hasanta):
    cs = v.char_switch()
    if cs is None:
        # the table written as a function char → Option<char> (a constant array searched, a match returning Some(..)): read as a finite map
        for a, val in v.s.atoms:
            if a[0] == "char_map" and val is not None:
                tab = _map_table(a[1])
                if tab is None:
                    raise Undecided("the rows of the sign table %s (cannot be evaluated as a finite map)" % a[1].split("::")[-1])
                which = "hasanta+sign" if after_hasanta else "automatic-vowel"
                missing = [s for s in sorted(REQUIRED) if s not in tab]
                if missing:
                    raise Mismatch("the sign(s) %s have no row in the %s table" % (" ".join("U+%04X" % ord(m) for m in missing), which))
                wrong = [s for s in tab if tab[s] != TABLE.get(s)]
                if wrong:
                    raise Mismatch("row for %s of the %s table is not the sign's own vowel" % (" ".join("U+%04X" % ord(m) for m in sorted(wrong)), which))
                if val is False:
                    return []
                return ([("pop",)] if after_hasanta else []) + [("push", "<map:%s>" % a[1])]
        raise Undecided("which vowel sign was typed (no match on the character)")
    allv, val = cs
    if val == "otherwise":
        missing = [s for s in sorted(REQUIRED) if ord(s) not in allv]
        if missing:
            raise Mismatch("the sign(s) %s have no row in the %s table" % (" ".join("U+%04X" % ord(m) for m in missing), "hasanta+sign" if after_hasanta else "automatic-vowel"))
        return []
    outs = {TABLE.get(chr(c)) for c in val}
    if len(outs) != 1 or None in outs:
        raise Mismatch("row for %s is not a vowel sign with an independent vowel of its own" % [hex(c) for c in val])
    return ([("pop",)] if after_hasanta else []) + [("push", outs.pop())]


class Mismatch(Exception):
    pass


REQUIRED = set(classes.SIGNS10)


def set_required(prog):
    try:
        kset = classes.class_sets(prog)[0].get("is_kar")
        REQUIRED.clear()
        REQUIRED.update(set(classes.SIGNS10) | ({c for c in kset[1] if c in PAIRS} if kset else set()))
    except Exception:
        REQUIRED.clear()
        REQUIRED.update(PAIRS)


def same_effects(a, b):
    """Two effect lists are the same up to the order of *independent* effects: writes to the composed text and assignments of the pending sign
    touch different state, so only their relative order within each kind matters; a re-dispatch / helper call touches both and is a barrier."""
    def canon(effs):
        segs, cur_t, cur_p = [], [], []
        for e in effs:
            if e[0] in ("recurse", "call"):
                segs.append((tuple(cur_t), tuple(cur_p), e))
                cur_t, cur_p = [], []
            elif e[0] == "pending":
                cur_p.append(e)
            elif e[0] == "pop" and cur_t and cur_t[-1][0] == "push":
                cur_t.pop()                 # a character pushed and popped again at once leaves the text as it was
            else:
                cur_t.append(e)
        segs.append((tuple(cur_t), tuple(cur_p), None))
        return segs
    return canon(a) == canon(b)


def run(ctx):
    prog, chk = ctx.prog, ctx.check
    chk.explanation = (
        "Symbolic path summaries of the key-value processor (every acyclic MIR path; conditions classified into a closed vocabulary of predicates over "
        "the entry state, effects = ordered writes to the composed text) compared with a three-valued evaluation of an independent transcription "
        "of the documented rule list. A path whose predicates do not decide the rule list, or whose effects differ from the expected ones, is "
        "reported with its condition/effect signature. Nothing is executed.")
    chk.not_decided = ["key values of several code points that start with a vowel sign (only their first character is considered by the rules)",
                       "behaviour with the old vowel-sign order option on (C14) and the reph algorithm itself (C13)"]
    mods = ctx.memo("modsets", lambda: ModSets(prog))
    # a sign the vowel-sign predicate accepts takes the vowel-sign rules, so it needs its row in both sign → vowel tables (else the key types nothing)
    set_required(prog)
    try:
        b, S, info = ctx.memo("kvp", lambda: kvp.summarise(prog))
    except PathLimit as e:
        chk.rule("C12.R1", "rule table").undecidable("paths", "cannot enumerate the key-value processor's paths: %s" % e)
        return
    kv = info["kvp"]
    from . import c13
    reph_fn = None
    for (bb, t) in b.calls():
        n = callee_name(t)
        if n in prog.fns and n != kv and (prog.fns[n].get("impl") or {}).get("self") == builders.fixed_ty(prog):
            reph_fn = n.split("::")[-1]

    mark_predicates(prog)
    r1 = chk.rule("C12.R1", "every path of the key-value processor (option off) has exactly the effects the documented rule list prescribes",
                  "each key's effect on the composed text follows the documented rules in priority order and otherwise plain appending")
    n_paths = 0
    n_unknown = 0
    sigs = {}
    marks_lits = set()
    from engine.analyses import PredEval
    pe = PredEval(prog)
    MAP_EVAL["pe"] = pe
    cls = classes.class_fns(prog)
    MAP_EVAL["cls"] = cls
    feas = [s for s in S if kvp.feasible(s, pe, cls)]
    off = [s for s in feas if not any(a == ("cfg", "get_fixed_old_kar_order") and v is True for a, v in s.atoms)]
    r1.table("paths_feasible", len(feas))
    for s in off:
        n_paths += 1
        for a, val in s.atoms:
            if a[0] == "rmc_in":
                marks_lits.add(a[1])
            if a[0] == "rmc_pred" and a[1] in MARK_SETS:
                marks_lits.add(MARK_SETS[a[1]])
        if s.unknown:
            n_unknown += 1
            d, vals, bb = s.unknown[0]
            key = "unknown-condition@bb%d" % bb
            if key not in sigs:
                sigs[key] = True
                r1.undecidable(key, "the processor branches on %r, which is not in the recognised predicate vocabulary" % (d,), site_of(b, bb))
            continue
        v = View(s)
        effects = [("call", "<reph>") if (e[0] == "call" and e[1] == reph_fn) else e for e in s.effects]
        try:
            want = expected_effects(v)
            verdict = None if same_effects(want, effects) else ("effects", want)
        except Undecided as e:
            verdict = ("undecided", str(e))
        except Mismatch as e:
            verdict = ("table", str(e))
        if verdict is None:
            continue
        # describe the path by its decisive atoms
        sig = _signature(s)
        last_bb = [bb for (bb, vals) in s.path if b.blocks[bb]["term"]["k"] in ("call", "switch")][-1]
        key = "%s|%s" % (verdict[0], sig)
        if key in sigs:
            continue
        sigs[key] = True
        if verdict[0] == "effects":
            r1.violation("path:" + sig, "under [%s] the processor does %s; the documented rules prescribe %s" % (sig, _fmt(effects), _fmt(verdict[1])),
                         site_of(b, _first_effect_bb(b, s) or last_bb), {"atoms": [(list(a), val) for a, val in s.atoms]})
        elif verdict[0] == "table":
            r1.violation("table:" + sig, verdict[1], site_of(b, last_bb))
        else:
            r1.violation("undecided:" + sig, "a path with effects %s never tests %s, which the documented rule list needs here (conditions: %s)"
                         % (_fmt(effects), verdict[1], sig), site_of(b, last_bb))
    r1.table("paths_checked", n_paths)
    r1.table("paths_total", len(S))
    if n_paths and not any(i["status"] != "holds" for i in r1.instances):
        r1.ok("all-paths", "%d paths (old vowel-sign order not taken) agree with the rule list" % n_paths)
    # punctuation literal
    for lit in sorted(marks_lits):
        import unicodedata as _ud
        # punctuation and symbols only (ASCII, the Dari marks, currency signs …): a letter, digit, sign, joiner or space in the set would turn a
        # vowel sign typed after it into an independent vowel
        bad = [c for c in lit if c.isalnum() or c.isspace() or not (_ud.category(c)[0] in "PS") or c in "\u200c\u200d"]
        miss = [c for c in CORE_MARKS if c not in lit]
        if bad or miss:
            r1.violation("marks", "the punctuation set %r %s" % (lit, ("contains %r" % bad) if bad else ("lacks %r" % "".join(miss))), common.fn_line(prog, kv))
        else:
            r1.ok("marks", "punctuation set: %d punctuation characters (ASCII, apostrophe and the Dari marks included)" % len(set(lit)))
    if not marks_lits:
        r1.violation("marks", "no punctuation-set test found in the automatic-vowel rule", common.fn_line(prog, kv))
    r1.floor(2, "all-paths + marks")

    # ---------------- R3 classes
    r3 = chk.rule("C12.R3", "character classes as sets: vowels, vowel signs, consonants, ligature-making signs; joiner constants",
                  "the classes the rules distinguish are the Unicode ones (ু ূ ৃ exactly for traditional joining)")
    classes.check_classes(r3, prog, ["is_vowel", "is_kar", "is_pure_consonant", "is_ligature_making_kar"], common.fn_line)
    consts = {c["name"]: c["val"].get("cp") for c in prog.consts if c["ty"] == "char"}
    for nm, cp in (("ZWNJ", 0x200C), ("ZWJ", 0x200D), ("B_HASANTA", 0x09CD), ("B_CHANDRA", 0x0981), ("B_R", 0x09B0), ("B_LENGTH_MARK", 0x09D7)):
        if nm in consts:
            if consts[nm] == cp:
                r3.ok("const:%s" % nm, "U+%04X" % cp)
            else:
                r3.violation("const:%s" % nm, "%s = U+%04X, expected U+%04X" % (nm, consts[nm] or 0, cp), None)
    r3.floor(7, "4 classes + disjointness + joiners")

    # ---------------- R4 plain back-space pops exactly one code point
    r4 = chk.rule("C12.R4", "plain back-space removes exactly one code point of the composed text (and one raw key)",
                  "backspace removes exactly the last code point")
    fx = builders.fixed_ty(prog)
    roles = builders.method_roles(prog)
    bs = prog.method_impl(fx, "backspace_event")
    try:
        bb_, paths = c06.analyse_paths(prog, bs, mods)
        n = 0
        for p in paths:
            # plain path: ctrl false, pending none, buffer non-empty
            ws = [(f, op) for (f, op, _) in p["writes"]]
            conds = c06._cond_sig(bb_, p)
            buf_ops = [op for (f, op) in ws if f == roles[fx]["buffer"]]
            pend_cleared = any(f != roles[fx]["buffer"] and op == "=None" for (f, op) in ws)
            if not buf_ops or pend_cleared or "clear" in buf_ops:
                continue
            n += 1
            key = "plain@%s" % "/".join(conds)
            if buf_ops.count("shrink") == 1 and all(o in ("shrink",) or o.startswith("call:") for o in buf_ops):
                raw_ops = [op for (f, op) in ws if f in roles[fx]["raw"] and op == "shrink"]
                if len(raw_ops) == 1:
                    r4.ok(key, "one pop on the composed text, one on the raw keys")
                else:
                    r4.violation(key, "plain back-space pops the raw-key string %d times" % len(raw_ops), common.fn_line(prog, bs))
            else:
                r4.violation(key, "plain back-space performs %s on the composed text instead of exactly one pop" % buf_ops, common.fn_line(prog, bs))
        if n == 0:
            r4.violation("plain", "no plain back-space path found", common.fn_line(prog, bs))
    except PathLimit as e:
        r4.undecidable("plain", "cannot enumerate back-space paths: %s" % e)
    r4.floor(2, "two plain back-space exits (non-empty / emptied)")

    # ---------------- R5 pending-sign machinery is inert with the option off
    r5 = chk.rule("C12.R5", "with the option off the pending-sign state is never touched and the processor never re-dispatches",
                  "with the old vowel-sign order option off, each key's effect follows these rules (nothing else interferes)")
    bad = None
    n = 0
    for s in off:
        n += 1
        if any(e[0] in ("pending", "recurse") for e in s.effects) or any(a[0] in ("pending_some", "pending_variant") for a, v in s.atoms):
            bad = s
            break
    if bad is None:
        r5.ok("inert", "no read/write of the pending sign and no re-dispatch on %d option-off paths" % n)
    else:
        r5.violation("inert", "a path that does not take the old vowel-sign order option touches the pending sign or re-dispatches: %s / %s"
                     % (_signature(bad), _fmt(bad.effects)), common.fn_line(prog, kv))
    r5.floor(1, "inert")

    # ---------------- R6 the options the rules test are the values the front end set
    r6 = chk.rule("C12.R6", "each option the processor consults is a plain stored value (getter = field, one pass-through setter, exported setter passes the value)",
                  "with the option on / off each key's effect follows the documented rules — 'the option' is the value the front end set")
    opts = sorted({a[1] for s in S for a, v in s.atoms if a[0] == "cfg"})
    common.plain_options(r6, prog, opts)
    r6.floor(5, "five options consulted by the key-value processor")


def _signature(s):
    parts = []
    for a, v in s.atoms:
        if a[0] == "cfg":
            nm = a[1].replace("get_fixed_", "")
            parts.append(("" if v else "!") + nm)
        elif a[0] == "value_is":
            if v:
                parts.append("value=" + {"্য": "zofola", "র্": "reph"}.get(a[1], a[1]))
        elif a[0] in ("char_eq", "rmc_eq", "second_last_eq", "third_last_eq"):
            parts.append("%s%sU+%04X" % (a[0].split("_eq")[0], "=" if v else "≠", ord(a[1]) if isinstance(a[1], str) else a[1]))
        elif a[0] in ("char_switch", "rmc_switch", "popped_switch", "value_last_switch"):
            parts.append("%s=%s" % (a[0].split("_")[0], "other" if v == "otherwise" else "|".join("U+%04X" % c for c in v)))
        elif a[0] in ("char_map", "rmc_map"):
            parts.append("%s%s(%s)" % ("" if v else "!", a[1].split("::")[-1], a[0].split("_")[0]))
        elif a[0] in ("char_pred", "rmc_pred"):
            parts.append("%s%s(%s)" % ("" if v else "!", a[1], a[0].split("_")[0]))
        elif a[0] == "rmc_in":
            parts.append("%srmc∈marks" % ("" if v else "!"))
        else:
            parts.append("%s%s" % ("" if v else "!", a[0]))
    # drop duplicates, keep order
    seen = []
    for p in parts:
        if p not in seen:
            seen.append(p)
    return " ".join(seen)


def _fmt(effs):
    out = []
    for e in effs:
        if e[0] == "push":
            out.append("push(%s)" % (e[1] if e[1].startswith("<") or len(e[1]) != 1 else "U+%04X" % ord(e[1])))
        elif e[0] == "push_str":
            out.append("push_str(%s)" % e[1])
        elif e[0] == "pending":
            out.append("pending:=%s" % e[1])
        else:
            out.append(":".join(str(x) for x in e))
    return "[" + ", ".join(out) + "]"


def _first_effect_bb(b, s):
    for (bb, vals) in s.path:
        t = b.blocks[bb]["term"]
        if t["k"] == "call" and t["args"] and t["args"][0]["k"] != "const" and t["args"][0]["place"]["ty"].startswith("&mut "):
            return bb
    return None
