"""C09 — a learned candidate choice is remembered, also after a restart.

Decided statically: the write guard of the store (and that nothing else writes it on commit), that the
commit comparison field always holds the selection of the list last returned, writer/reader agreement
(path getter, type, truncating write), key/value split modes, the look-up order, and the alphabet
agreement between what the wrapping stage can add to a candidate and what the splitter strips.
Not decided: the round trip as behaviour for all words; atomicity of the save (C10)."""
from engine.mir import E, apath, strip_refs, is_const, const_val, callee_name, self_path
from engine.analyses import (peel_conv, guards_of, contains_call, direct_writes, ModSets)
from engine.report import site_of
from . import common, builders, c17, phonetic


def run(ctx):
    prog, chk = ctx.prog, ctx.check
    chk.explanation = (
        "Dominance (with polarity) of the store's writers by the commit comparison, who-may-write on the learned map, must-assign of the "
        "comparison field next to every list constructor, agreement of the path getter / serialised type between the constructor's reader and the "
        "commit's writer, constants of the two split calls, and set inclusion between the characters the wrapping stage can add "
        "(quoter table from MIR, okkhor's punctuation images from its pinned source) and the splitter's punctuation set.")
    chk.not_decided = ["the round trip as behaviour for every word and index", "atomicity of the save across crash points (C10 covers load tolerance)"]
    mods = ctx.memo("modsets", lambda: ModSets(prog))
    R = phonetic.roles(prog)
    acc = c17.accessors(prog)
    sp = c17.split_fn(prog)
    cc = R["commit"]
    from . import roles as _roles
    b = _roles.ib(prog, cc)          # commit with its private helpers spliced in
    store = R["store"]

    # ---------------- R1
    r1 = chk.rule("C09.R1", "the learned map and its file are written only under `committed index ≠ preselected index` ∧ suggestions on",
                  "committing the preselected candidate changes nothing; a different choice is stored")
    cmp_field = None
    inserts = [(bb, t) for (bb, t) in b.calls() if callee_name(t).endswith("HashMap::<K, V, S, A>::insert") and self_path(b.expr_operand(t["args"][0])) == (store,)]
    writes = [(bb, t) for (bb, t) in b.calls() if callee_name(t) in ("std::fs::write",) or callee_name(t).endswith("OpenOptions::open") or callee_name(t).endswith("File::create")]
    if len(inserts) != 1:
        r1.violation("insert", "commit inserts into the learned map %d times (expected once)" % len(inserts), common.fn_line(prog, cc))
    for what, lst in (("insert", inserts), ("file-write", writes)):
        for (bb, t) in lst:
            g = guards_of(b, bb)
            ne_ok = False
            opt_ok = False
            extra = []
            for (d, pol, s) in g:
                if d.k == "bin" and d.a[0] in ("Ne", "Eq"):
                    x, y = strip_refs(d.a[1]), strip_refs(d.a[2])
                    flds = [self_path(z) for z in (x, y)]
                    args = [z for z in (x, y) if z.k == "arg" and z.a[0] == 2]
                    if args and any(f for f in flds) and pol == (d.a[0] == "Ne"):
                        ne_ok = True
                        cmp_field = [f for f in flds if f][0]
                        continue
                if d.k == "call" and d.a[0].endswith("Config::get_phonetic_suggestion") and pol is True:
                    opt_ok = True
                    continue
                if d.k == "discr" and what == "file-write":
                    continue        # Ok(json) of the serialiser
                if b.blocks[s]["term"]["discr"]["k"] != "const" and _is_drop_flag(b, b.blocks[s]["term"]["discr"]["place"]["l"]):
                    continue
                extra.append((d, pol))
            if not ne_ok or not opt_ok:
                r1.violation(what, "the %s is not dominated by `preselected ≠ committed index` ∧ get_phonetic_suggestion()" % what, site_of(b, bb))
            elif extra and what == "insert":
                r1.violation(what, "the learned choice is stored only under an additional condition %s" % (extra,), site_of(b, bb))
            elif extra and what == "file-write":
                r1.violation(what, "the store is written to disk only under an additional condition %s — a choice learned in memory on the other paths is lost "
                             "at the next restart" % (repr(extra)[:300],), site_of(b, bb))
            else:
                r1.ok(what, "%s under prev ≠ index ∧ suggestions on" % what)
    if not writes:
        r1.violation("file-write", "commit never writes the store to disk", common.fn_line(prog, cc))
    # no other writer of the map on commit
    others = [(f, op, bb) for (f, op, bb, w) in phonetic.field_writes(prog, cc, mods, body=b) if f[:1] == (store,) and not op.endswith("::insert")]
    if others:
        r1.violation("other-writers", "commit also writes the learned map through %s" % others[0][1], site_of(b, others[0][2]))
    else:
        r1.ok("other-writers", "insert is the only write to the learned map on commit")
    # the comparison field holds the selection of the list last returned
    if cmp_field:
        sites, names = builders.suggestion_ctor_sites(prog)
        reach = prog.reach([R["get_suggestion"], R["backspace"]], foreign_trait_impls=False)
        n = 0
        for (fk, bb, t, kind) in sites:
            if kind != "list" or fk not in reach:
                continue
            fb = prog.body(fk)
            n += 1
            sel = strip_refs(fb.expr_operand(t["args"][2]))
            assigns = [w for w in direct_writes(fb) if w["op"] == "assign" and w["root"].k == "arg" and w["root"].a[0] == 1 and w["fields"] == cmp_field]
            good = False
            for w in assigns:
                if fb.pos_dominates((w["bb"], w["idx"]), fb.term_pos(bb)) or fb.postdominates(w["bb"], bb):
                    val = strip_refs(fb.expr_rvalue(w["rv"]))
                    if val == sel or self_path(sel) == cmp_field:
                        good = True
            key = "field-current@%s" % fk.split("::")[-1]
            if good:
                r1.ok(key, "self.%s := the selection handed to the list constructor, on the same path" % ".".join(cmp_field))
            else:
                r1.violation(key, "a list suggestion is returned without recording its selection in self.%s — after such an event the commit "
                             "comparison uses a stale index (a non-default choice can be ignored, or a default one stored)" % ".".join(cmp_field), site_of(fb, bb))
    r1.floor(4, "insert, file-write, other-writers, field-current")

    # ---------------- R2 writer / reader agreement
    r2 = chk.rule("C09.R2", "reader and writer agree on path getter and type; the write truncates",
                  "a new context created over the same user-data directory loads what was stored; the store is always a JSON object of strings")
    nb = _roles.ib(prog, R["new"])          # loading helpers (possibly in another module) and combinator closures spliced in
    wpath = rpath = None
    wty = rty = None
    for (bb, t) in writes:
        a = peel_conv(b.expr_operand(t["args"][0]))
        if a.k == "call" and a.a[0].startswith("config::Config::get_user"):
            wpath = a.a[0]
        if callee_name(t) == "std::fs::write":
            r2.ok("truncating", "saved with std::fs::write (create + truncate)")
        else:
            # OpenOptions chain must contain truncate(true)
            chain = b.expr_operand(t["args"][0])
            tr = contains_call(chain, lambda n: n.endswith("OpenOptions::truncate"))
            if callee_name(t).endswith("File::create") or (tr is not None and is_const(strip_refs(tr.a[1][1]), "bool", True)):
                r2.ok("truncating", "file opened truncating")
            else:
                r2.violation("truncating", "the store is rewritten through %s without truncation — a shorter document leaves trailing bytes and the file stops being JSON"
                             % callee_name(t), site_of(b, bb))
            for x in chain.walk():
                if x.k == "call" and x.a[0].startswith("config::Config::get_user"):
                    wpath = x.a[0]
    for (bb, t) in b.calls():
        if callee_name(t).startswith("serde_json::to_") and t["args"]:
            e = peel_conv(b.expr_operand(t["args"][-1] if "writer" in callee_name(t) else t["args"][0]))
            if self_path(e) == (store,):
                wty = R["fields"][store]
    # reader: the expression assigned to the store field in the constructor
    ret = strip_refs(nb.expr_local(0))
    reader = None
    if ret.k == "agg" and ret.t and "fields" in ret.t:
        for fname, op in zip(ret.t["fields"], ret.a[1]):
            if fname == store:
                reader = op
    if reader is None:
        r2.undecidable("reader", "constructor does not initialise the learned map in its aggregate")
    else:
        # look into closures used by and_then/map
        exprs = [reader]
        for x in reader.walk():
            if x.k == "agg" and x.a[0].startswith("closure:"):
                exprs.append(prog.body(x.a[0][8:]).expr_local(0))
        for e in exprs:
            for x in e.walk():
                if x.k == "call" and x.a[0].startswith("config::Config::get_user"):
                    rpath = x.a[0]
                if x.k == "call" and x.a[0].startswith("serde_json::from_") and x.t:
                    subs = (x.t.get("callee") or {}).get("substs") or []
                    rty = [s for s in subs if "HashMap" in s]
                    rty = rty[0] if rty else None
        if rpath is None or rty is None:
            # the value may reach the field through locals the expression engine keeps opaque: fall back to the constructor's calls
            for (bb_, t_) in nb.calls():
                n_ = callee_name(t_)
                if n_.startswith("serde_json::from_"):
                    subs = (t_.get("callee") or {}).get("substs") or []
                    hm = [s_ for s_ in subs if "HashMap" in s_ and s_ == R["fields"][store]]
                    if hm and rty is None:
                        rty = hm[0]
                        src_ = nb.expr_operand(t_["args"][0])
                        g_ = contains_call(src_, lambda m: m.startswith("config::Config::get_user"))
                        if g_ is not None and rpath is None:
                            rpath = g_.a[0]
        if wpath and rpath and wpath == rpath:
            r2.ok("path", "both use %s" % wpath.split("::")[-1])
        else:
            r2.violation("path", "the store is written to %s but read from %s" % (wpath, rpath), common.fn_line(prog, cc))
        if wty and rty and wty == rty:
            r2.ok("type", "serialised and deserialised as %s" % wty.split("::")[-1][:40])
        else:
            r2.violation("type", "serialised type %s ≠ deserialised type %s" % (wty, rty), common.fn_line(prog, cc))
    r2.floor(3, "truncating, path, type")

    # ---------------- R3 key agreement
    r3 = chk.rule("C09.R3", "stored key, look-up key and stored value are split consistently",
                  "the next time the same text is typed the preselected index points at that same candidate text")
    splits = [(bb, t) for (bb, t) in b.calls() if callee_name(t) == sp]
    key_split = val_split = None
    if inserts:
        ibb, it = inserts[0]
        k_e = peel_conv(b.expr_operand(it["args"][1]))
        v_e = peel_conv(b.expr_operand(it["args"][2]))
        for name, e in (("key", k_e), ("value", v_e)):
            ok_ = e.k == "call" and acc.get(e.a[0]) == "word"
            if not ok_:
                r3.violation("stored-%s" % name, "the stored %s is %r, not word() of a split" % (name, e), site_of(b, ibb))
                continue
            base = strip_refs(e.a[1][0])
            if base.k != "call" or base.a[0] != sp:
                r3.violation("stored-%s" % name, "the stored %s is the word of %r, not of a fresh split" % (name, base), site_of(b, ibb))
                continue
            src = peel_conv(base.a[1][0])
            flag = strip_refs(base.a[1][1])
            if name == "key":
                key_split = flag
                if self_path(src) == (builders.method_roles(prog)[R["method_ty"]]["buffer"],) and is_const(flag, "bool", False):
                    r3.ok("stored-key", "key = split(composition buffer, false).word()")
                else:
                    r3.violation("stored-key", "key = split(%r, %r).word(); expected the composition buffer with the colon flag off (as the look-up does)" % (src, flag), site_of(b, ibb))
            else:
                val_split = flag
                idx_ok = src.k == "call" and src.a[0].endswith("Rank::to_string") and contains_call(src, lambda n: "Index" in n) is not None
                lst = None
                ix = contains_call(src, lambda n: "Index" in n)
                if ix is not None:
                    lst = self_path(ix.a[1][0])
                    idx_arg = strip_refs(ix.a[1][1])
                    idx_ok = idx_ok and idx_arg.k == "arg" and idx_arg.a[0] == 2
                if not idx_ok or lst != (R["sug_field"], R["rank_list"]):
                    r3.violation("stored-value", "value is taken from %r, expected the committed index of the list last returned (self.%s.%s)" % (src, R["sug_field"], R["rank_list"]), site_of(b, ibb))
                elif not is_const(flag, "bool", True):
                    r3.violation("stored-value", "the committed candidate is split with the colon flag %r; its wrapping can contain ':' (from the `:`` escape), "
                                 "which only the colon-including mode strips" % (flag,), site_of(b, ibb))
                else:
                    r3.ok("stored-value", "value = split(list[index], true).word()")
    # look-up key
    lk = [k for k in prog.fns if prog.fns[k].get("kind") != "Closure" and (prog.fns[k].get("impl") or {}).get("self") == R["sug_ty"]
          and any(callee_name(t).endswith("::position") for (bb, t) in prog.body(k).calls())]
    if len(lk) != 1:
        r3.undecidable("lookup", "selection look-up (calls Iterator::position) matched %s" % lk)
    else:
        lb = prog.body(lk[0])
        gets = [(bb, t) for (bb, t) in lb.calls() if callee_name(t).endswith("HashMap::<K, V, S, A>::get") and STR(t) ]
        first = None
        for (bb, t) in lb.calls():
            if callee_name(t).endswith("HashMap::<K, V, S, A>::get") and phonetic.STRMAP_TY in t["args"][0]["place"]["ty"]:
                ke = peel_conv(lb.expr_operand(t["args"][1]))
                if first is None or lb.dominates(bb, first[0]):
                    first = (bb, t, ke)
        if first is None:
            r3.violation("lookup-key", "the look-up never consults the learned map", common.fn_line(prog, lk[0]))
        else:
            bb, t, ke = first
            if ke.k == "call" and acc.get(ke.a[0]) == "word" and strip_refs(ke.a[1][0]).k == "arg":
                # the split handed in by the list builder
                ok_flag = True
                for (caller, cbb, ct) in prog.call_sites.get(lk[0], []):
                    cb = prog.body(caller)
                    pidx = strip_refs(ke.a[1][0]).a[0] - 1
                    sv = cb.expr_operand(ct["args"][pidx])
                    flags = [strip_refs(x.a[1][1]) for x in sv.walk() if x.k == "call" and x.a[0] == sp]
                    if not flags or not all(is_const(f, "bool", False) for f in flags):
                        ok_flag = False
                if ok_flag:
                    r3.ok("lookup-key", "first look-up key = word() of split(typed text, false)")
                else:
                    r3.violation("lookup-key", "the look-up's split does not use the colon flag the stored key uses", site_of(lb, bb))
            else:
                r3.violation("lookup-key", "first look-up key is %r, expected word() of the current split" % (ke,), site_of(lb, bb))
            # R4: suffix fallback only when the whole word has no entry
            later = [(bb2, t2) for (bb2, t2) in lb.calls() if callee_name(t2).endswith("Data::find_suffix")]
            ob = lb
            if not later:
                # the fallback may be written inside combinator closures (`get(word).cloned().or_else(|| (1..len).find_map(..))`): judge it where it runs
                from . import roles as _roles
                ob = _roles.ib(prog, lk[0])
                later = [(bb2, t2) for (bb2, t2) in ob.calls() if callee_name(t2).endswith("Data::find_suffix")]
            r4ok = bool(later) and all(any(d.k == "discr" and contains_call(d, lambda n: n.endswith("::get")) and (pol == "otherwise" or pol == (0,))
                                           for (d, pol, s) in guards_of(ob, bb2)) for (bb2, t2) in later)
            if r4ok:
                r3.ok("lookup-order", "whole word first; base+suffix only when the word has no learned choice of its own")
            else:
                r3.violation("lookup-order", "the suffix fallback is not subordinate to a failed whole-word look-up", common.fn_line(prog, lk[0]))
    r3.floor(4, "stored key, stored value, look-up key, look-up order")

    # ---------------- R6 one split per looked-up text
    r6 = chk.rule("C09.R6", "the text looked up for a suffixed word is the join of one base with one suffix (no string is carried from one split point to the next)",
                  "for that word followed by a known suffix the preselected index points at the correspondingly joined candidate; the store holds only candidate texts")
    if len(lk) == 1:
        from . import roles as _roles
        lb2 = _roles.ib(prog, lk[0])
        has_suffix = lambda body: any(lb2.blocks[x]["term"]["k"] == "call" and callee_name(lb2.blocks[x]["term"]).endswith("Data::find_suffix") for x in body)
        carried = phonetic.loop_carried_strings(lb2, has_suffix)
        short = lk[0].split("::")[-1]
        if not any(has_suffix(lb2.loop_body(h, tl)) for h, tl in lb2.loops().items()):
            r6.ok("one-split", "no loop over split points: nothing can be carried between them")
        elif not carried:
            r6.ok("one-split", "no append to a string inside the split-point loop can reach another iteration")
        for n_, (L, name, status, why, at) in enumerate(carried):
            key = "one-split@%s#%d" % (short, n_)
            if status == "carried":
                r6.violation(key, "`%s` is appended to inside the loop over split points but %s — when two split points both have a learned base the looked-up "
                             "(and stored) text is the concatenation of both joins, which is no candidate" % (name, why), site_of(lb2, at))
            else:
                r6.ok(key, "`%s`: %s" % (name, why))
    r6.floor(1, "split-point loop")

    # ---------------- R7 what the look-up itself memoises in the learned map is the bare joined text
    r7 = chk.rule("C09.R7", "values the look-up inserts into the learned map contain no wrapping punctuation of the current composition",
                  "the store holds candidate texts for words; a derived choice is found again whatever punctuation surrounds the word later")
    if len(lk) == 1:
        from . import roles as _roles
        lb3 = _roles.ib(prog, lk[0])
        ins = [(bb, t) for (bb, t) in lb3.calls() if callee_name(t).endswith("HashMap::<K, V, S, A>::insert") and phonetic.STRMAP_TY in t["args"][0]["place"]["ty"]]
        for n_, (bb, t) in enumerate(ins):
            val = lb3.expr_operand(t["args"][2])
            wrap_reads = [x for x in val.walk() if x.k == "call" and acc.get(x.a[0]) in ("preceding", "trailing") and isinstance(x.a[2], int)
                          and (x.a[2] == bb or bb in lb3.reachable_from(x.a[2]))]
            key = "memo-value@%s#%d" % (lk[0].split("::")[-1], n_)
            if wrap_reads:
                r7.violation(key, "the text stored for the word includes %s() of the current composition: the entry is later compared with candidates wrapped in "
                             "other punctuation and never matches (and it reaches the file with the next save)" % acc.get(wrap_reads[0].a[0]), site_of(lb3, bb))
            else:
                r7.ok(key, "stored before the wrapping parts are added")
        if not ins:
            r7.ok("memo-value", "the look-up does not write the learned map")
    r7.floor(1, "look-up")

    # ---------------- R8 only a commit writes the learned map
    r8 = chk.rule("C09.R8", "the learned map is written by the commit only: a selection derived for a suffixed word is not stored as if the user had chosen it",
                  "a suffixed word follows the learned choice of its base unless the suffixed text has a learned choice of its own")
    entry8 = [R["get_suggestion"], R["backspace"]]
    n8 = 0
    for fk in sorted(prog.reach(entry8, foreign_trait_impls=False)):
        fb = prog.body(fk)
        for (bb, t) in fb.calls():
            n = callee_name(t)
            if not t["args"] or t["args"][0]["k"] == "const" or phonetic.STRMAP_TY not in t["args"][0]["place"]["ty"] or not t["args"][0]["place"]["ty"].startswith("&mut"):
                continue
            if any(n.endswith(x) for x in ("::insert", "::remove", "::clear", "::entry", "::retain", "::extend", "::get_mut", "::drain")):
                tgt = fb.expr_operand(t["args"][0])
                # the user auto-correct map has the same type: only the learned store (the method's field, or a parameter fed from it) counts
                spx = self_path(tgt)
                if spx is not None and spx[-1:] == (R["user_autocorrect"],):
                    continue
                n8 += 1
                r8.violation("writer:%s@%s" % (n.split("::")[-1], fk.split("::")[-1]), "the key / back-space path calls %s on the learned map: an entry the user never committed is stored "
                             "(and saved with the next commit); when the user later changes the choice for the base word the stale derived entry still wins" % n.split("::")[-1],
                             site_of(fb, bb))
    if n8 == 0:
        r8.ok("writers", "no function reachable from the key and back-space events writes the learned map")
    r8.floor(1, "writers")

    # ---------------- R9 a committed raw-text candidate can be found again
    r9 = chk.rule("C09.R9", "the look-up can reproduce every kind of candidate the user can commit — also the raw typed text offered as the English candidate",
                  "the next time the same text is typed the preselected index points at that same candidate text")
    if len(lk) == 1:
        lb9 = prog.body(lk[0])
        # what the look-up compares the candidates with
        cmp_parts = None
        for (bb, t) in lb9.calls():
            pass
        from engine.analyses import format_parts as _fp
        sel_defs = []
        for (i, j, st) in lb9.stmts():
            if st["k"] == "assign" and not st["place"]["p"] and lb9.locals[st["place"]["l"]]["ty"] == "std::string::String":
                fp9 = _fp(lb9, lb9.expr_rvalue(st["rv"]))
                if fp9 and len(fp9) == 3:
                    sel_defs.append(fp9)
        for (bb, t) in lb9.calls():
            if not t["dest"]["p"] and t["dest"]["ty"] == "std::string::String":
                fp9 = _fp(lb9, E("call", callee_name(t), tuple(lb9.expr_operand(a) for a in t["args"]), bb, t=t))
                if fp9 and len(fp9) == 3:
                    sel_defs.append(fp9)
        raw_inputs = [i for i, ty in enumerate(prog.fns[lk[0]].get("inputs") or [], start=1) if ty == "&str"]
        wrapped = [fp for fp in sel_defs if fp[0][0] == "val" and fp[2][0] == "val" and acc.get(getattr(peel_conv(fp[0][1]), "a", [None])[0]) == "preceding"
                   and acc.get(getattr(peel_conv(fp[2][1]), "a", [None])[0]) == "trailing"]
        if not wrapped:
            from engine.analyses import inplace_wraps, bracketed_appends
            for (l_, pre_, post_, ibb_, abb_) in inplace_wraps(lb9) + bracketed_appends(lb9):
                if acc.get(getattr(peel_conv(pre_), "a", [None])[0]) == "preceding" and acc.get(getattr(peel_conv(post_), "a", [None])[0]) == "trailing":
                    wrapped.append([("val", pre_), ("val", E("local", l_)), ("val", post_)])
        if not wrapped:
            r9.undecidable("raw-english", "the text the look-up compares candidates with was not found as preceding ++ selection ++ trailing", common.fn_line(prog, lk[0]))
        elif raw_inputs:
            r9.ok("raw-english", "the look-up also receives the raw typed text")
        else:
            r9.violation("raw-english", "the look-up compares candidates with converted-preceding ++ stored ++ converted-trailing only and never sees the raw typed text: the English "
                         "candidate (the raw text, punctuation unconverted) is found again only when the word has no punctuation around it", common.fn_line(prog, lk[0]))
    r9.floor(1, "raw-english")

    # ---------------- R5 alphabet agreement
    r5 = chk.rule("C09.R5", "every character the wrapping stage can add to a candidate is stripped by the splitter",
                  "the stored text is the bare candidate, so it is found again")
    sets = common.splitter_sets(prog, sp)
    meta = set("".join(s for s, bb in sets)) | {":"}
    # quoter outputs from its MIR constants
    q = c17.quoter_fn(prog)
    qb = c17.quoter_body(prog)
    qout = c17.quoter_outputs(prog)
    for ch in sorted(qout):
        key = "quoter:U+%04X" % ord(ch)
        if ch in meta:
            r5.ok(key, "curly quote U+%04X is in the splitter's set" % ord(ch))
        else:
            r5.violation(key, "the quoter can add U+%04X to a candidate but the splitter does not strip it: a choice for a quoted word is stored with the quote and never found again"
                         % ord(ch), common.fn_line(prog, sp))
    imgs, ver = phonetic.okkhor_punct_images()
    if imgs is None:
        r5.undecidable("okkhor", "okkhor source pinned by Cargo.lock not found")
    else:
        base = set("".join(s for s, bb in sets))
        n = 0
        for find, reps in imgs:
            if not all(c in base or c in ":`" for c in find):
                continue        # cannot occur in the wrapping parts
            if any(c == ":" and find[i + 1:i + 2] != "`" for i, c in enumerate(find)):
                continue        # with the colon flag off a ':' is only ever split off together with its back-tick escape
            n += 1
            for rep in reps:
                bad = [c for c in rep if c not in meta]
                key = "okkhor:%s" % "-".join("%04X" % ord(c) for c in find)
                if bad:
                    r5.violation(key, "okkhor %s converts the punctuation %r to %r; %s is not stripped by the splitter, so a candidate typed with it is stored with it"
                                 % (ver, find, rep, ", ".join("U+%04X" % ord(c) for c in bad)), common.fn_line(prog, sp))
                else:
                    r5.ok(key + ("" if len(reps) == 1 else ":" + "-".join("%04X" % ord(c) for c in rep)), "%r → %r stays inside the set" % (find, rep))
        r5.table("okkhor_punctuation_patterns", n)
    r5.floor(8, "4 quoter outputs + okkhor punctuation patterns")


def STR(t):
    return True


def _is_drop_flag(b, local):
    defs = b.defs.get(local, [])
    return bool(defs) and all(d[2] == "assign" and d[3]["rv"]["k"] == "use" and "bool" in d[3]["rv"]["op"] for d in defs)
