"""Symbolic path summaries of the fixed method's key-value processor.

Every acyclic MIR path is summarised as (atoms with truth values, ordered effects).  Atoms are
recognised predicates over the *entry* state (last character of the composed text, emptiness, the
key's value and first character, options, pending sign); effects are the ordered writes to the
composed text and the pending sign.  Nothing is executed: consumers evaluate an independently
transcribed rule list in three-valued logic over each path's atoms and compare the expected with the
extracted effects."""
from engine.mir import E, apath, strip_refs, is_const, const_val, callee_name, self_path
from engine.analyses import (peel_conv, contains_call, enumerate_paths, bool_of, PathLimit)
from . import builders, classes, common

ZOFOLA = "্য"
REPH = "র্"


class Summary:
    def __init__(self):
        self.atoms = []        # [(atom tuple, value)]
        self.effects = []      # [tuple]
        self.unknown = []      # unrecognised conditions [(E, vals)]
        self.path = None
        self.tainted = False   # a condition was evaluated after a write it may depend on
        self.events = []       # atoms and effects interleaved in path order: ('atom', a, v) | ('eff', e)

    def val(self, atom):
        for a, v in self.atoms:
            if a == atom:
                return v
        return None


def processor(prog):
    from . import c13
    return c13.key_value_processor(prog)


def _is_pend_take(x, pend):
    """x is `self.<pending>.take()` (or mem::take / mem::replace(.., None) of it): the value that was pending."""
    x = strip_refs(x)
    if x.k != "call" or not x.a[1]:
        return False
    n = x.a[0]
    if not (n.endswith("Option::<T>::take") or n.endswith("mem::take") or n.endswith("mem::replace")):
        return False
    return self_path(x.a[1][0]) == (pend,)


def summarise(prog, limit=60000):
    fx = builders.fixed_ty(prog)
    roles = builders.method_roles(prog)
    buf = roles[fx]["buffer"]
    pending = [n for n, t in roles[fx]["fields"].items() if t.startswith("std::option::Option<") and n in roles[fx]["session_fields"]]
    pend = pending[0] if pending else None
    kvp = processor(prog)
    from . import roles as _roles
    b = _roles.ib_paths(prog, kvp, transitive=True)       # private helpers (split-off branches, conversion functions) spliced in; the reph routine stays one call
    cls = classes.class_fns(prog)
    cls_by_key = {v: k for k, v in cls.items()}
    out = []

    def is_value(e):
        e = peel_conv(e)
        return e.k == "arg" and e.a[0] == 2

    def is_character(e):
        e = strip_refs(e)
        return e.k == "field" and strip_refs(e.a[0]).k == "downcast" and contains_call(e, lambda n: n.endswith("Iterator>::next")) is not None \
            and any(is_value(x) for x in e.walk() if x.k == "arg") and contains_call(e, lambda n: n.endswith("::last") or n.endswith("::pop")) is None

    def is_rest(e):
        """value[len_utf8(first character)..] — what follows the first character of the key value."""
        # chars.as_str() after the first character was taken with chars.next()
        e0 = strip_refs(e)
        while e0.k == "call" and len(e0.a[1]) == 1 and (e0.a[0].endswith("::deref") or e0.a[0].endswith("::as_ref") or e0.a[0].endswith("::borrow")):
            e0 = strip_refs(e0.a[1][0])
        if e0.k == "call" and "Chars" in e0.a[0] and e0.a[0].endswith("::as_str") and e0.a[1]:
            src = strip_refs(e0.a[1][0])
            return src.k == "call" and src.a[0].endswith("str>::chars") and is_value(src.a[1][0])
        e = peel_conv(e)
        if not (e.k == "call" and e.a[0].endswith("::index") and "str" in e.a[0] and len(e.a[1]) == 2 and is_value(e.a[1][0])):
            return False
        r = strip_refs(e.a[1][1])
        if not (r.k == "agg" and str(r.a[0]).endswith("RangeFrom::RangeFrom") and r.a[1]):
            return False
        lo = strip_refs(r.a[1][0])
        return lo.k == "call" and lo.a[0].endswith("len_utf8") and is_character(lo.a[1][0])

    def is_rmc(e):
        e = strip_refs(e)
        return e.k == "call" and e.a[0].endswith("unwrap_or_default") and contains_call(e, lambda n: n.endswith("Iterator>::last")) is not None \
            and any(self_path(x) == (buf,) for x in e.walk()) and contains_call(e, lambda n: n.endswith("::nth")) is None

    def is_second_last(e):
        e = strip_refs(e)
        nth = contains_call(e, lambda n: n.endswith("::nth"))
        return e.k == "call" and e.a[0].endswith("unwrap_or_default") and nth is not None and is_const(strip_refs(nth.a[1][1]), "int", 1) \
            and contains_call(e, lambda n: n.endswith("::rev")) is not None and any(self_path(x) == (buf,) for x in e.walk())

    def is_third_last(e):
        e = strip_refs(e)
        nth = contains_call(e, lambda n: n.endswith("::nth"))
        return e.k == "call" and e.a[0].endswith("unwrap_or_default") and nth is not None and is_const(strip_refs(nth.a[1][1]), "int", 2) \
            and contains_call(e, lambda n: n.endswith("::rev")) is not None and any(self_path(x) == (buf,) for x in e.walk())

    def is_popped(e):
        e = strip_refs(e)
        return contains_call(e, lambda n: n.endswith("String::pop")) is not None

    def char_map_of(e):
        """`table(character)` for a local char → Option<char> function: (its key, 'char'|'rmc') or None."""
        e = strip_refs(e)
        if e.k == "call" and e.a[0] in prog.fns and prog.fns[e.a[0]].get("inputs") == ["char"] \
                and prog.fns[e.a[0]].get("output") == "std::option::Option<char>" and len(e.a[1]) == 1:
            if is_character(e.a[1][0]):
                return e.a[0], "char"
            if is_rmc(e.a[1][0]):
                return e.a[0], "rmc"
        return None

    def mapped_char(e):
        """The payload of `table(character)`'s Some: '<map:fn>' or None."""
        e = strip_refs(e)
        if e.k == "field" and strip_refs(e.a[0]).k == "downcast":
            m = char_map_of(strip_refs(e.a[0]).a[0])
            if m is not None and m[1] == "char":
                return "<map:%s>" % m[0]
        return None

    def classify(d, vals, allv, ty, s, wrote_buf, wrote_pend):
        """Returns (atom, value) or None."""
        neg = False
        d = strip_refs(d)
        while d.k == "un" and d.a[0] == "Not":
            d = strip_refs(d.a[1])
            neg = not neg
        bv = bool_of((d, vals, allv, ty)) if ty == "bool" else None
        if bv is not None and neg:
            bv = not bv
        if ty == "bool" and d.k == "call":
            n = d.a[0]
            if (n.endswith("::eq") or n.endswith("::ne")) and len(d.a[1]) == 2:
                xs = [peel_conv(x) for x in d.a[1]]
                lits = [const_val(x) for x in xs if is_const(x, "str")]
                if lits and any(is_value(x) for x in xs):
                    v = bv if n.endswith("::eq") else (not bv)
                    return ("value_is", lits[0]), v
            if n.startswith("config::Config::get_"):
                return ("cfg", n.split("::")[-1]), bv
            if n in cls_by_key:
                a0 = d.a[1][0]
                if is_character(a0):
                    return ("char_pred", cls_by_key[n]), bv
                if is_rmc(a0):
                    if wrote_buf:
                        s.tainted = True
                    return ("rmc_pred", cls_by_key[n]), bv
            if n.endswith("str>::contains"):
                lit = peel_conv(d.a[1][0])
                x = d.a[1][1]
                if is_const(lit, "str") and is_rmc(x):
                    return ("rmc_in", const_val(lit)), bv
            if n.endswith("str>::is_empty") and d.a[1] and is_rest(d.a[1][0]) and (("char_some",), True) in s.atoms and bv is not None:
                # the value has a first character on this path: nothing after it ⇔ the value is one character long
                return ("value_count_eq", 1), bv
            if n.endswith("str>::ends_with") and len(d.a[1]) == 2 and is_value(peel_conv(d.a[1][0])) and is_const(strip_refs(d.a[1][1]), "char") and bv is not None:
                # `value.ends_with(c)` is `value.chars().last() == Some(c)`
                cp = ord(const_val(strip_refs(d.a[1][1])))
                return ("value_last_switch", (cp,)), ((cp,) if bv else "otherwise")
            if n.endswith("String::is_empty") and self_path(d.a[1][0]) == (buf,):
                if wrote_buf:
                    s.tainted = True
                return ("buf_empty",), bv
            if n.endswith("Option::<T>::is_some") and self_path(d.a[1][0]) == (pend,):
                return ("pending_some",), bv
        if ty == "bool" and d.k == "bin" and d.a[0] in ("Eq", "Ne"):
            l, r = strip_refs(d.a[1]), strip_refs(d.a[2])
            c = [x for x in (l, r) if is_const(x, "char") or is_const(x, "int")]
            o = [x for x in (l, r) if not (is_const(x, "char") or is_const(x, "int"))]
            if len(c) == 1 and len(o) == 1:
                cv = const_val(c[0])
                v = bv if d.a[0] == "Eq" else (not bv)
                if is_character(o[0]):
                    return ("char_eq", cv), v
                if is_rmc(o[0]):
                    return ("rmc_eq", cv), v
                if is_second_last(o[0]):
                    if wrote_buf:
                        s.tainted = True
                    return ("second_last_eq", cv), v
                if is_third_last(o[0]):
                    if wrote_buf:
                        s.tainted = True
                    return ("third_last_eq", cv), v
                if o[0].k == "call" and o[0].a[0].endswith("::count") and any(is_value(x) for x in o[0].walk()):
                    return ("value_count_eq", cv), v
        if ty == "char":
            if is_character(d):
                return ("char_switch", allv), vals
            if is_rmc(d):
                return ("rmc_switch", allv), vals
        if ty == "isize" and d.k == "discr":
            x = strip_refs(d.a[0])
            some = None
            if vals == (1,):
                some = True
            elif vals == (0,) or vals == "otherwise":
                some = False if (vals == (0,) or allv == (1,)) else None
            if x.k == "call" and x.a[0].endswith("Iterator>::next") and any(is_value(y) for y in x.walk()) and contains_call(x, lambda n: n.endswith("::rev")) is None:
                return ("char_some",), some
            m = char_map_of(x)
            if m is not None:
                if m[1] == "rmc" and wrote_buf:
                    s.tainted = True
                return ("%s_map" % m[1], m[0]), some
            if self_path(x) == (pend,) or _is_pend_take(x, pend):
                # `pending.take()` yields what was pending and leaves None (recorded as an effect at the call); taking from None changes nothing
                if some is False and _is_pend_take(x, pend) and ("pending", None) in s.effects:
                    i_ = len(s.effects) - 1 - s.effects[::-1].index(("pending", None))
                    del s.effects[i_]
                    if ("eff", ("pending", None)) in s.events:
                        j_ = len(s.events) - 1 - s.events[::-1].index(("eff", ("pending", None)))
                        del s.events[j_]
                return ("pending_some",), some
            if x.k == "call" and x.a[0].endswith("String::pop"):
                return ("popped_some",), some
            if x.k == "call" and x.a[0].endswith("::last") and any(is_value(y) for y in x.walk()):
                return ("value_last_some",), some
            # variant of the pending sign
            r, f = apath(x)
            if f and f[0] == pend and ("@Some" in f):
                return ("pending_variant", allv), vals
            if _is_pend_take(r, pend) and f and ("@Some" in f):
                return ("pending_variant", allv), vals
            if x.k == "field" and contains_call(x, lambda n: n.endswith("String::pop")) is None and any(self_path(y) == (pend,) for y in x.walk()):
                return ("pending_variant", allv), vals
        if ty == "char" and is_popped(d):
            return ("popped_switch", allv), vals
        if ty == "char" and contains_call(d, lambda n: n.endswith("::last")) is not None and any(is_value(y) for y in d.walk()):
            return ("value_last_switch", allv), vals
        return None

    import copy
    import sys
    from engine.analyses import known_switch_value
    sys.setrecursionlimit(max(20000, sys.getrecursionlimit()))

    def clone(s):
        n = Summary()
        n.atoms = list(s.atoms)
        n.effects = list(s.effects)
        n.unknown = list(s.unknown)
        n.events = list(s.events)
        n.tainted = s.tainted
        return n

    def step_block(bb, s, env, st):
        """Process statements and the call terminator of block bb; returns new env."""
        blk = b.blocks[bb]
        for j, stt in enumerate(blk["stmts"]):
            if stt["k"] != "assign":
                continue
            val = b.expr_rvalue(stt["rv"], 0, stt, env)
            if stt["place"]["p"]:
                lhs = b.expr_place(stt["place"], 0, env)
                spx = self_path(lhs)
                if spx == (pend,):
                    v = strip_refs(val)
                    if v.k == "agg" and str(v.a[0]).endswith("Option::None"):
                        eff = ("pending", None)
                    elif v.k == "agg" and str(v.a[0]).endswith("Option::Some"):
                        inner = strip_refs(v.a[1][0])
                        eff = ("pending", inner.a[0].split("::")[-1] if inner.k == "agg" else repr(inner))
                    else:
                        eff = ("pending", repr(v))
                    s.effects.append(eff)
                    s.events.append(("eff", eff))
                    st["wrote_pend"] = True
                elif spx is not None and spx != ():
                    eff = ("assign", ".".join(spx))
                    s.effects.append(eff)
                    s.events.append(("eff", eff))
                elif stt["place"]["p"][0] != "*":
                    env[stt["place"]["l"]] = E("local", stt["place"]["l"])
            else:
                env[stt["place"]["l"]] = val
        t = blk["term"]
        if t["k"] == "call":
            name = callee_name(t)
            args = [b.expr_operand(a, 0, env) for a in t["args"]]
            eff = None
            if t["args"] and t["args"][0]["k"] != "const" and t["args"][0]["place"]["ty"].startswith("&mut "):
                spx = self_path(args[0])
                if spx == (buf,):
                    op = name.split("::")[-1]
                    if op == "push":
                        v = strip_refs(args[1])
                        if is_const(v, "char"):
                            eff = ("push", const_val(v))
                        elif mapped_char(v) is not None:
                            eff = ("push", mapped_char(v))
                        elif is_character(v):
                            eff = ("push", "<character>")
                        elif is_popped(v):
                            eff = ("push", "<popped>")
                        elif mapped_char(v) is not None:
                            eff = ("push", mapped_char(v))
                        else:
                            eff = ("push", repr(v)[:80])
                    elif op == "push_str":
                        v = peel_conv(args[1])
                        one = None
                        vs_ = strip_refs(v)
                        if vs_.k == "call" and vs_.a[0].endswith("encode_utf8") and vs_.a[1] and is_const(strip_refs(vs_.a[1][0]), "char"):
                            one = const_val(strip_refs(vs_.a[1][0]))          # `push_str(c.encode_utf8(..))` appends the character c
                        elif is_const(vs_, "str") and len(const_val(vs_)) == 1:
                            one = const_val(vs_)
                        if one is not None:
                            eff = ("push", one)
                        else:
                            eff = ("push_str", "<value>" if is_value(v) else ("<rest>" if is_rest(args[1]) else repr(v)[:80]))
                    elif op == "pop":
                        eff = ("pop",)
                    else:
                        eff = (op,)
                    st["wrote_buf"] = True
                elif spx == () and name in prog.fns:
                    eff = ("recurse",) if name == kvp else ("call", name.split("::")[-1])
                    st["wrote_buf"] = True
                    st["wrote_pend"] = True
                elif spx == (pend,):
                    op = name.split("::")[-1]
                    if op == "take":
                        eff = ("pending", None)
                    else:
                        eff = ("write", pend, op)
                    st["wrote_pend"] = True
                elif spx is not None and spx != ():
                    eff = ("write", ".".join(spx), name.split("::")[-1])
            if eff is not None:
                s.effects.append(eff)
                s.events.append(("eff", eff))
            if not t["dest"]["p"]:
                env[t["dest"]["l"]] = cursor_read(blk, t, name, args, st) or E("call", name, tuple(args), bb, t=t)
        return env

    def cursor_read(blk, t, name, args, st):
        """The k-th `next()` on one named `buffer.chars().rev()[.skip(j)]` iterator is the (j+k)-th character
        from the end: written as the `nth` / `last` read the recognisers know.  The iterator borrows the buffer,
        so nothing can be pushed or popped between two of its reads."""
        if len(args) != 1 or t["args"][0]["k"] == "const":
            return None
        it = strip_refs(args[0])
        if name.endswith("DoubleEndedIterator>::next_back") and it.k == "call" and it.a[0].endswith("::chars"):
            it = E("call", "std::iter::Iterator::rev", (it,), t=t)       # reading `chars()` from its back is reading `chars().rev()` from its front
        elif not name.endswith("Iterator>::next"):
            return None
        skipped = 0
        if it.k == "call" and it.a[0].endswith("Iterator::skip") and len(it.a[1]) == 2 and is_const(strip_refs(it.a[1][1]), "int"):
            skipped = const_val(strip_refs(it.a[1][1]))
            it = strip_refs(it.a[1][0])
        if not (it.k == "call" and it.a[0].endswith(("Iterator::rev", "Iterator>::rev")) and len(it.a[1]) == 1):
            return None
        chars = strip_refs(it.a[1][0])
        if not (chars.k == "call" and chars.a[0].endswith("::chars") and len(chars.a[1]) == 1
                and any(self_path(x) == (buf,) for x in chars.a[1][0].walk())):
            return None
        tmp = t["args"][0]["place"]
        if tmp["p"]:
            return None
        owner = [s["rv"]["place"] for s in blk["stmts"] if s["k"] == "assign" and s["place"]["l"] == tmp["l"]
                 and not s["place"]["p"] and s["rv"]["k"] == "ref"]
        if len(owner) != 1 or owner[0]["p"]:
            return None
        seen = dict(st.get("cursors", {}))
        k = seen.get(owner[0]["l"], 0)
        seen[owner[0]["l"]] = k + 1
        st["cursors"] = seen
        at = skipped + k
        if at == 0:
            return E("call", "<cursor as std::iter::Iterator>::last", (chars,), t=t)
        return E("call", "<cursor as std::iter::Iterator>::nth", (it, E("const", ("int", at))), t=t)

    def rec(bb, s, env, st, path, onpath):
        if len(out) > limit:
            raise PathLimit("too many paths in the key-value processor")
        if bb in onpath:
            raise PathLimit("loop in the key-value processor")
        env = dict(env)
        st = dict(st)
        env = step_block(bb, s, env, st)
        t = b.blocks[bb]["term"]
        k = t["k"]
        if k == "return":
            s.path = path + [(bb, None)]
            out.append(s)
            return
        if k == "switch":
            d = b.expr_operand(t["discr"], 0, env)
            kv = known_switch_value(d)
            allv = tuple(v for v, _ in t["targets"])
            edges = b.switch_edges(bb)
            for (node, vals, tgt) in edges:
                if kv is not None:
                    take = (kv in vals) if vals != "otherwise" else (kv not in allv)
                    if not take:
                        continue
                    rec(tgt, s if len(edges) == 1 else clone(s), env, st, path + [(bb, vals)], onpath | {bb})
                    continue
                s2 = clone(s)
                cl = classify(d, vals, allv, t["discr_ty"], s2, st.get("wrote_buf"), st.get("wrote_pend"))
                if cl is not None and cl[0] == ("popped_some",) and cl[1] is False:
                    # a pop right after a push on this path cannot find the text empty
                    pops = [i_ for i_, e_ in enumerate(s2.effects) if e_[0] == "pop"]
                    if pops and pops[-1] >= 1 and s2.effects[pops[-1] - 1][0] in ("push", "push_str") and s2.effects[pops[-1] - 1][1] != "":
                        continue
                if cl is None:
                    drop_flag = False
                    if t["discr"]["k"] != "const" and not t["discr"]["place"]["p"]:
                        defs = b.defs.get(t["discr"]["place"]["l"], [])
                        drop_flag = bool(defs) and all(d_[2] == "assign" and d_[3]["rv"]["k"] == "use" and "bool" in d_[3]["rv"]["op"] for d_ in defs)
                    if not drop_flag:
                        s2.unknown.append((strip_refs(d), vals, bb))
                else:
                    s2.atoms.append(cl)
                    s2.events.append(("atom", cl[0], cl[1]))
                rec(tgt, s2, env, st, path + [(bb, vals)], onpath | {bb})
            return
        if k in ("goto", "call", "drop", "assert"):
            if t.get("target") is None:
                return
            rec(t["target"], s, env, st, path + [(bb, None)], onpath | {bb})
            return
        return

    rec(0, Summary(), {}, {"wrote_buf": False, "wrote_pend": False}, [], frozenset())
    return b, out, {"buffer": buf, "pending": pend, "kvp": kvp}


def feasible(s, pe=None, cls=None):
    """Entry-state atoms are pure: the same atom with two different values, two different identities of one
    character, or an identity that contradicts a class predicate (evaluated from the predicate's own MIR)
    make the path infeasible."""
    seen = {}
    for a, v in s.atoms:
        if a[0] in ("buf_empty", "popped_some", "popped_switch", "pending_some", "pending_variant"):
            continue        # state that the path itself may have changed
        if a[0] in ("char_switch", "rmc_switch"):
            continue        # matches narrow the character step by step (below): two arms of two matches need not be the same set
        key = a
        if key in seen and seen[key] != v:
            return False
        seen[key] = v
    for kind_eq, kind_sw, kind_pred in (("char_eq", "char_switch", "char_pred"), ("rmc_eq", "rmc_switch", "rmc_pred")):
        ident = [a[1] for a, v in s.atoms if a[0] == kind_eq and v is True]
        if len(set(ident)) > 1:
            return False
        # every match on the character narrows it: an arm (possibly shared by several patterns) keeps its patterns, `_ =>` excludes the listed ones
        sw = [(a[1], v) for a, v in s.atoms if a[0] == kind_sw]
        cands, excluded = None, set()
        for allv, v in sw:
            if v != "otherwise":
                cands = set(v) if cands is None else (cands & set(v))
            else:
                excluded |= set(allv)
        if cands is not None:
            cands -= excluded
            if not cands:
                return False
            if ident and ord(ident[0]) not in cands:
                return False
            if len(cands) == 1:
                ident = ident or [chr(next(iter(cands)))]
        if ident and ord(ident[0]) in excluded:
            return False
        neg = [a[1] for a, v in s.atoms if a[0] == kind_eq and v is False]
        if ident and ident[0] in neg:
            return False
        if ident and pe is not None and cls is not None:
            for a, v in s.atoms:
                if a[0] == kind_pred and a[1] in cls:
                    r = pe.call(cls[a[1]], [ord(ident[0])])
                    if r is not None and r != v:
                        return False
                if a[0] == kind_eq.replace("_eq", "_map") and v is not None:
                    r = pe.call(a[1], [ord(ident[0])])
                    if isinstance(r, tuple) and r and r[0] in ("some", "none") and (r[0] == "some") != v:
                        return False
    # the value's identity fixes its first character
    for a, v in s.atoms:
        if a[0] == "value_is" and v is True:
            first = a[1][0]
            for b_, w in s.atoms:
                if b_[0] == "char_eq" and ((b_[1] == first) != w):
                    return False
                if b_[0] == "char_some" and w is False:
                    return False
                if b_[0] == "char_pred" and pe is not None and cls is not None and b_[1] in cls:
                    r = pe.call(cls[b_[1]], [ord(first)])
                    if r is not None and r != w:
                        return False
    vals = [a[1] for a, v in s.atoms if a[0] == "value_is" and v is True]
    if len(set(vals)) > 1:
        return False
    return True
