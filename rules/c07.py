"""C07 — phonetic candidates are ranked best-first by a fixed, explainable order.

Decided statically: the comparator's 16-leaf decision table (class order, ascending numbers,
antisymmetry, total pre-order on the reachable rank set — an evaluation of the *extracted table*),
that each candidate source uses its designated rank constructor, ordering of sort vs pushes /
look-up / returned copy, and duplicate suppression on the stated sources.
Not decided: that edit distances are what the statement says for every word; duplicates among
emoji / English / emoticon items."""
import itertools

import re
from engine.mir import E, apath, strip_refs, is_const, const_val, callee_name, self_path
from engine.analyses import (peel_conv, guards_of, path_table, variant_of, contains_call, closure_consumer, truth_table)
from engine.report import site_of
from engine import tables
from . import common, builders, phonetic

ORD = {"Less": -1, "Equal": 0, "Greater": 1}


def comparator_table(prog, rule=None):
    """{(va, vb): leaf} with leaf = ('const', -1/0/1) | ('cmp', 'ab'|'ba') | ('other', repr)."""
    key = [k for k, f in prog.fns.items() if (f.get("impl") or {}).get("trait") == "std::cmp::Ord"
           and (f.get("impl") or {}).get("self") == builders.RANK and f.get("name") == "cmp"]
    if len(key) != 1:
        return None, None
    b = prog.body(key[0])
    if any(callee_name(t_) in prog.fns or callee_name(t_).startswith("std::cmp::Ordering::then") for (_, t_) in b.calls()):
        # a comparator written over keys computed by private functions of the rank type (`tier()`, `weight()`), combined with
        # `then_with`: read with those spliced in
        from . import roles as _roles_c
        key_fns = [k_ for k_, f_ in prog.fns.items() if (f_.get("impl") or {}).get("self") == builders.RANK and not (f_.get("impl") or {}).get("trait")
                   and len(f_.get("inputs") or []) == 1 and f_.get("kind") != "Closure" and not (f_.get("output") or "").startswith(("&", "std::string"))]
        b = _roles_c.ib(prog, key[0], allow=key_fns)
    prog._cmp_body = b
    adt = prog.adts[builders.RANK]
    table = {}
    allnames = [v["name"] for v in adt["variants"]]
    from engine.analyses import sym_paths, PathLimit
    try:
        paths = sym_paths(b, 0, 4096)          # branches decided by the two variants (a key / tier computed from them) are followed, not split
    except PathLimit:
        return key[0], {}
    for path, env, conds5 in paths:
        A, B = set(allnames), set(allnames)
        stray = None
        for c5 in conds5:
            c = c5[:4]
            d = strip_refs(c[0])
            root, f = apath(d.a[0]) if d.k == "discr" else (None, None)
            if root is not None and root.k == "arg" and root.a[0] in (1, 2) and not [x for x in f if not str(x).startswith("@")]:
                vs = set(variant_of(c, adt))
                if root.a[0] == 1:
                    A &= vs
                else:
                    B &= vs
            else:
                stray = d
        ret = env.get(0)
        r = strip_refs(ret) if ret is not None else None
        leaf = ("other", repr(r))
        if stray is not None:
            r = None
            leaf = ("other", "a branch on %r inside the comparator" % (stray,))
        if r is not None and r.k == "agg" and r.a[0].startswith("adt:std::cmp::Ordering::"):
            leaf = ("const", ORD[r.a[0].split("::")[-1]])
        elif r is not None and r.k == "call" and r.a[0].endswith("Ord for u8>::cmp") or (r is not None and r.k == "call" and r.a[0].endswith("::cmp") and "u8" in r.a[0]):
            x, y = strip_refs(r.a[1][0]), strip_refs(r.a[1][1])
            rx, fx = apath(x)
            ry, fy = apath(y)
            if rx.k == "arg" and ry.k == "arg" and fx and fy and fx[-1] in ("1", 1) and fy[-1] in ("1", 1):
                if rx.a[0] == 1 and ry.a[0] == 2:
                    leaf = ("cmp", "ab")
                elif rx.a[0] == 2 and ry.a[0] == 1:
                    leaf = ("cmp", "ba")
        for va in A:
            for vb in B:
                table[(va, vb)] = (leaf, path)
    return key[0], table


def eval_leaf(leaf, na, nb):
    kind, v = leaf
    if kind == "const":
        return v
    if kind == "cmp":
        a, b = (na, nb) if v == "ab" else (nb, na)
        return (a > b) - (a < b)
    return None


def run(ctx):
    prog, chk = ctx.prog, ctx.check
    chk.explanation = (
        "The comparator is extracted from MIR as a 4×4 decision table whose leaves are constants or u8 comparisons with recorded operand "
        "order; class order, ascending numbers and antisymmetry are checked on the table and the table is evaluated exhaustively over the "
        "finite reachable rank set for totality/transitivity. Provenance of every pushed candidate identifies its source and the rank "
        "constructor used; dominance orders sort, pushes, look-up and the returned copy.")
    chk.not_decided = ["that the edit distance of each dictionary word is what the statement says (third-party edit_distance; value-level)",
                       "absence of duplicates among emoji / English / emoticon candidates (value-level)",
                       "`as u8` wrap of distance×10 for distances ≥ 26 (longest dictionary word: 23 code points) — listed as an assumption"]
    variants = [v["name"] for v in prog.adts[builders.RANK]["variants"]]

    # ---------------- R1
    r1 = chk.rule("C07.R1", "comparator decision table: class order, ascending numbers, antisymmetry",
                  "auto-correct first; dictionary words by non-decreasing distance; transliteration after every dictionary word; English last")
    ck, table = comparator_table(prog)
    if table is None:
        r1.undecidable("cmp", "impl Ord for Rank not found uniquely")
        return
    b = getattr(prog, "_cmp_body", None) or prog.body(ck)
    r1.table("leaves", {"%s×%s" % k: "%s:%s" % v[0] for k, v in table.items()})
    dom = [0, 1, 2, 3, 10, 20, 255]
    for va in variants:
        for vb in variants:
            key = "%s×%s" % (va, vb)
            if (va, vb) not in table:
                r1.violation(key, "comparator has no leaf for (%s, %s)" % (va, vb), common.fn_line(prog, ck))
                continue
            leaf, path = table[(va, vb)]
            site = site_of(b, path[-2][0] if len(path) > 1 else path[-1][0])
            if leaf[0] == "other":
                r1.undecidable(key, "leaf is %s — neither a constant ordering nor a u8 comparison of the two rank numbers" % leaf[1][:120], site)
                continue
            # expected semantics
            def want(na, nb):
                cls = {"First": 0, "Emoji": 1, "Other": 1, "Last": 2}
                if cls[va] != cls[vb]:
                    return (cls[va] > cls[vb]) - (cls[va] < cls[vb])
                if va == "First":
                    return 0
                if va == "Emoji" and vb == "Emoji":
                    return None        # free: Equal (push order) or by number are both best-first
                return (na > nb) - (na < nb)
            bad = None
            for na in dom:
                for nb in dom:
                    w = want(na, nb)
                    g = eval_leaf(leaf, na, nb)
                    if w is not None and g != w:
                        bad = (na, nb, g, w)
                        break
                if bad:
                    break
            if bad:
                names = {-1: "Less", 0: "Equal", 1: "Greater"}
                r1.violation(key, "cmp(%s(%d), %s(%d)) = %s, the stated order requires %s" % (va, bad[0], vb, bad[1], names[bad[2]], names[bad[3]]), site,
                             {"leaf": leaf})
                continue
            # antisymmetry with the mirrored leaf
            if (vb, va) in table and table[(vb, va)][0][0] != "other":
                mleaf = table[(vb, va)][0]
                asym = [(na, nb) for na in dom for nb in dom if eval_leaf(leaf, na, nb) != -eval_leaf(mleaf, nb, na)]
                if asym:
                    r1.violation(key, "not antisymmetric: cmp(%s(%d), %s(%d)) vs the mirrored leaf" % (va, asym[0][0], vb, asym[0][1]), site)
                    continue
            r1.ok(key, "%s:%s" % leaf)
    # PartialOrd delegates
    po = [k for k, f in prog.fns.items() if (f.get("impl") or {}).get("trait") == "std::cmp::PartialOrd" and (f.get("impl") or {}).get("self") == builders.RANK]
    if len(po) == 1:
        pb = prog.body(po[0])
        ret = strip_refs(pb.expr_local(0))
        good = ret.k == "agg" and ret.a[0].endswith("Option::Some") and strip_refs(ret.a[1][0]).k == "call" and strip_refs(ret.a[1][0]).a[0] == ck \
            and [strip_refs(x).k for x in strip_refs(ret.a[1][0]).a[1]] == ["arg", "arg"] and [strip_refs(x).a[0] for x in strip_refs(ret.a[1][0]).a[1]] == [1, 2]
        if good:
            r1.ok("partial_cmp", "Some(self.cmp(other))")
        else:
            r1.violation("partial_cmp", "partial_cmp is %r, expected Some(self.cmp(other)) (sort uses PartialOrd/Ord interchangeably)" % (ret,), common.fn_line(prog, po[0]))
    else:
        r1.undecidable("partial_cmp", "impl PartialOrd for Rank not found uniquely")
    r1.floor(17, "16 comparator leaves + partial_cmp")

    # ---------------- R2 total pre-order on the reachable rank set
    r2 = chk.rule("C07.R2", "extracted comparator is a total pre-order on the rank set reachable in phonetic mode",
                  "a fixed, explainable order (sorting with an inconsistent comparator is unspecified and may panic)")
    emo = tables.emojicon_tables()
    n_emoji = max(len(v) for v in emo["names"].values()) if emo else 8
    ranks = [("First", 0)] + [("Emoji", i) for i in range(1, n_emoji + 1)] + [("Other", 10 * d) for d in range(0, 26)] + [("Last", i) for i in (1, 2, 3)]
    r2.table("rank_set", "First, Emoji(1..%d) [longest English-name list in emojicon %s], Other(0,10,..,250), Last(1..3)" % (n_emoji, emo["version"] if emo else "?"))
    ok_all = all(v[0][0] != "other" for v in table.values()) and len(table) == 16

    def cmpf(x, y):
        return eval_leaf(table[(x[0], y[0])][0], x[1], y[1])
    if not ok_all:
        r2.undecidable("preorder", "comparator table incomplete")
    else:
        viol = None
        n_eval = 0
        for x in ranks:
            for y in ranks:
                cxy = cmpf(x, y)
                n_eval += 1
                if cxy != -cmpf(y, x):
                    viol = ("antisymmetry", x, y, None)
                    break
                for z in ranks:
                    cyz = cmpf(y, z)
                    cxz = cmpf(x, z)
                    if cxy <= 0 and cyz <= 0 and cxz > 0:
                        viol = ("transitivity of ≤", x, y, z)
                        break
                    if cxy == 0 and cyz == 0 and cxz != 0:
                        viol = ("transitivity of =", x, y, z)
                        break
                if viol:
                    break
            if viol:
                break
        r2.table("triples_evaluated", len(ranks) ** 3)
        if viol:
            r2.violation("preorder", "comparator table violates %s on %s" % (viol[0], [v for v in viol[1:] if v]), common.fn_line(prog, ck))
        else:
            r2.ok("preorder", "total pre-order on %d ranks (%d triples of the extracted table)" % (len(ranks), len(ranks) ** 3))
        # advisory: with emoji rank 10 (fixed mode, Bengali name with ten emoji) the table stops being a pre-order
        ranks10 = ranks + [("Emoji", 10)]
        bad10 = any(cmpf(x, y) == 0 and cmpf(y, z) == 0 and cmpf(x, z) != 0 for x in ranks10 for y in ranks10 for z in ranks10)
        if bad10:
            r2.advisory("emoji-rank-10", "with an emoji rank of 10 (only fixed mode: ten-emoji Bengali name) equality is not transitive "
                        "(Emoji(1)=Emoji(10)=Other(10) but Emoji(1)<Other(10)); std documents sorting as unspecified for such comparators — assumption A-sort")
    r2.floor(1, "pre-order evaluation")

    # ---------------- R3 sources and constructors
    r3 = chk.rule("C07.R3", "each candidate source uses its designated rank constructor; sort after all pushes, before look-up and the returned copy",
                  "auto-correct (user before bundled) first; dictionary by distance from the transliteration; transliteration Last; English last of all")
    ctors = builders.rank_ctors(prog)
    ph = builders.phonetic_ty(prog)
    roles = builders.method_roles(prog)
    gs = roles[ph]["get_suggestion"]
    reach = prog.reach([gs, prog.method_impl(ph, "backspace_event")], foreign_trait_impls=False)
    events = []
    for fk in sorted(reach):
        if prog.fns[fk].get("kind") == "Closure":
            continue
        for p in builders.push_events(prog, fk, ctors):
            events.append(p)
    last_ranks = {}
    seen = set()
    for p in events:
        if p.item is None:
            continue
        src = classify_source(prog, p)
        if src is None:
            continue
        short = p.fn.split("::")[-1]
        key = "%s@%s" % (src, short)
        if key in seen:
            key += "#2"
        seen.add(key)
        site = site_of(p.outer_body, p.outer_bb)
        want = {"autocorrect": "First", "dictionary": "Other", "transliteration": "Last", "emoticon-literal": "Last", "english": "Last",
                "emoji": "Emoji"}[src]
        if p.variant != want:
            r3.violation(key, "%s candidate is ranked as %s, the stated order requires %s" % (src, p.variant, want), site)
            continue
        if want == "Last":
            rv = strip_refs(p.rankval) if p.rankval is not None else None
            if rv is None or not is_const(rv, "int"):
                r3.undecidable(key, "Last rank of the %s candidate is not a constant" % src, site)
                continue
            last_ranks[src] = const_val(rv)
        if src == "autocorrect":
            # the candidate is the parser's conversion of the table's entry on every path: an entry offered as it stands (Latin text) can equal the
            # typed text, which the literal / English pushes add without looking (the list then holds one text twice)
            alts = strip_refs(p.item)
            alts = list(alts.a[0]) if alts.k == "phi" else [alts]
            raw = [a_ for a_ in alts if not (strip_refs(peel_conv(a_)).k == "call" and strip_refs(peel_conv(a_)).a[0].endswith("Parser::convert"))
                   and not contains_call(a_, lambda n: n.endswith("Parser::convert") or n.endswith("Parser::convert_into"))]
            if raw and not p.closure:
                r3.violation(key, "on some path the auto-correct candidate is the table's entry as it stands (%s), not its transliteration — a self-mapped entry "
                             "(`xD` → `xD`) then equals the typed text and is listed again by the literal / English push" % (repr(raw[0])[:160],), site)
                continue
        if src == "dictionary":
            # base of the distance must be the transliteration
            base_ok = _dictionary_base_is_transliteration(prog, p)
            if not base_ok:
                r3.violation(key, "dictionary words are not ranked by their distance from the plain transliteration", site)
                continue
        r3.ok(key, "%s → %s%s" % (src, p.variant, "(%s)" % last_ranks.get(src) if want == "Last" else ""))
    # the English candidate is offered whenever the option is on, except where it would duplicate an existing candidate
    from . import c17, c18
    acc = c17.accessors(prog)
    astuple = c18.as_tuple_fns(prog, acc)
    for p in events:
        if p.item is None or classify_source(prog, p) != "english":
            continue
        b = p.outer_body
        extra = []
        for (d, pol, s) in builders.effective_guards(prog, b, p.outer_bb, closure=getattr(p, 'closure', None)):
            if d.k == "call" and d.a[0].endswith("get_suggestion_include_english") and pol is True:
                continue
            if d.k == "call" and (d.a[0].endswith("::ne") or d.a[0].endswith("::eq")):
                x, y = peel_conv(d.a[1][0]), peel_conv(d.a[1][1])
                parts = [c18.split_part(prog, b, z, acc, astuple) for z in (x, y)]
                raws = [z for z in (x, y) if z.k == "arg" and b.locals[z.a[0]]["ty"] == "&str"]
                if raws and any(pp and pp[0] == "preceding" for pp in parts) and pol == d.a[0].endswith("::ne"):
                    continue
            # a bool flag that is only ever set to true right after the typed text was pushed as the emoticon literal
            t = b.blocks[s]["term"] if isinstance(s, int) and s < len(b.blocks) else {"k": "?"}
            if t["k"] == "switch" and t["discr"]["k"] != "const" and not t["discr"]["place"]["p"] and pol is False:
                loc = t["discr"]["place"]["l"]
                # the constant assignments the flag's value can come from (through copies: a stage's return value, `a && stage()`)
                from engine.analyses import _flag_sources
                srcs_ = _flag_sources(b, loc)
                trues = falses = defs = []
                if srcs_ is not None and all(isinstance(v_, bool) for (_, v_) in srcs_):
                    trues = [(bb_,) for (bb_, v_) in srcs_ if v_ is True]
                    falses = [(bb_,) for (bb_, v_) in srcs_ if v_ is False]
                    defs = trues + falses
                if trues and len(trues) + len(falses) == len(defs):
                    lit_blocks = [q.outer_bb for q in events if q.fn == p.fn and q.item is not None and classify_source(prog, q) in ("emoticon-literal", "emoji")]
                    if all(any(b.dominates(lb, d_[0]) or lb == d_[0] for lb in lit_blocks) or
                           any(contains_call(dd, lambda n: n.endswith("get_emoji_by_emoticon")) for (dd, pp, ss) in guards_of(b, d_[0])) for d_ in trues):
                        continue
            # the same flag kept as a private two-variant enum (`typed == TypedText::Missing`): every assignment of the *other* variant must stand
            # right after the typed text was pushed as the emoticon literal
            if d.k == "bin" and d.a[0] in ("Eq", "Ne") and pol in (True, False):
                sides = [strip_refs(d.a[1]), strip_refs(d.a[2])]
                flag_side = [x for x in sides if x.k == "discr" and strip_refs(x.a[0]).k in ("phi", "local", "agg") and not (strip_refs(x.a[0]).k == "agg")]
                const_side = [x for x in sides if x.k == "discr" and strip_refs(x.a[0]).k == "agg" and not strip_refs(x.a[0]).a[1]]
                if len(flag_side) == 1 and len(const_side) == 1:
                    kept_name = str(strip_refs(const_side[0].a[0]).a[0])                      # adt:path::Variant the candidate is offered under …
                    adt_ = kept_name[4:].rsplit("::", 1)[0]
                    a_ = prog.adts.get(adt_)
                    offered_when_equal = (pol is True) == (d.a[0] == "Eq")
                    if a_ and len(a_["variants"]) == 2 and not any(v_["fields"] for v_ in a_["variants"]) and a_.get("vis") != "pub" and offered_when_equal:
                        others = []
                        for (i_, j_, st_) in b.stmts():
                            if st_["k"] == "assign" and not st_["place"]["p"] and st_["rv"]["k"] == "aggregate" and st_["rv"].get("adt") == adt_ \
                                    and "adt:%s::%s" % (adt_, st_["rv"].get("variant")) != kept_name:
                                others.append(i_)
                        lit_blocks = [q.outer_bb for q in events if q.fn == p.fn and q.item is not None and classify_source(prog, q) in ("emoticon-literal", "emoji")]
                        if others and all(any(b.dominates(lb, o_) or lb == o_ for lb in lit_blocks) or
                                          any(contains_call(dd, lambda n: n.endswith("get_emoji_by_emoticon")) for (dd, pp, ss) in guards_of(b, o_)) for o_ in others):
                            continue
            extra.append((d, pol))
        key = "english-guards@%s" % p.fn.split("::")[-1]
        if extra:
            r3.violation(key, "the raw English candidate is suppressed under %s; the stated order offers it whenever the option is on "
                         "(allowed exceptions: already added as the emoticon literal, or equal to the captured punctuation)"
                         % ", ".join("%r=%s" % (d, pol) for d, pol in extra)[:300], site_of(b, p.outer_bb))
        else:
            r3.ok(key, "English pushed iff option ∧ not already present (emoticon literal / captured punctuation)")
    for need in ("autocorrect", "dictionary", "transliteration", "english", "emoji", "emoticon-literal"):
        if not any(i["key"].startswith(need + "@") for i in r3.instances):
            r3.violation("missing:%s" % need, "no push of a %s candidate was found in the phonetic builders" % need, common.fn_line(prog, gs))
    if {"transliteration", "english", "emoticon-literal"} <= set(last_ranks):
        t_, e_, l_ = last_ranks["transliteration"], last_ranks["english"], last_ranks["emoticon-literal"]
        if e_ > t_ and e_ > l_:
            r3.ok("last-order", "English Last(%d) after transliteration Last(%d) and emoticon literal Last(%d)" % (e_, t_, l_))
        else:
            r3.violation("last-order", "Last ranks: English %d, transliteration %d, emoticon literal %d — the raw English text must be last" % (e_, t_, l_),
                         common.fn_line(prog, gs))
    # user auto-correct entry before the bundled one
    from . import phonetic as _ph
    lookups = _ph.autocorrect_lookup(prog)
    sc = [k for (k, b_, e_) in lookups]
    if len(sc) != 1:
        r3.undecidable("user-first", "the auto-correct look-up (Option<&str> built from the user map) was not found uniquely: %s" % sc)
    else:
        scb = lookups[0][1]
        ret = strip_refs(lookups[0][2])
        good = False
        if ret.k == "call" and (ret.a[0].endswith("::or_else") or ret.a[0].endswith("::or")):
            first, second = ret.a[1][0], ret.a[1][1]
            first_user = any(x.k == "field" and x.a[1] == _ph.roles(prog)["user_autocorrect"] for x in first.walk()) and not contains_call(first, lambda n: n.startswith("data::"))
            second_bundled = False
            sx = strip_refs(second)
            if sx.k == "agg" and sx.a[0].startswith("closure:"):
                cret = prog.body(sx.a[0][8:]).expr_local(0)
                second_bundled = contains_call(cret, lambda n: n.startswith("data::Data::")) is not None
            elif contains_call(sx, lambda n: n.startswith("data::Data::")):
                second_bundled = True
            good = first_user and second_bundled
        if not good:
            # the same precedence written as a `match` / nested conditionals: read from the look-up's return paths
            ap_ = _ph.autocorrect_paths(prog)
            if ap_ is not None and ap_["user_first"] and ap_["bundled"]:
                good = True
        if good:
            r3.ok("user-first", "look-up = user entry .or_else(bundled entry)")
        else:
            r3.violation("user-first", "auto-correct look-up is %r — the user's entry must take precedence over the bundled one" % (ret,), common.fn_line(prog, sc[0]))
    # … and both tables are asked for the typed word itself, once each: an entry found under another key (a lower-cased, trimmed or
    # stemmed word) is not "the auto-correct entry for the typed word", and a second look-up per source lets another key's entry win
    if len(sc) == 1:
        from engine.analyses import subst_upvars as _su
        lk_fn = sc[0]
        asks = []
        _spliced_here = set(prog.body(lk_fn).fn.get("inlined") or [])      # closures already written out in the look-up's own (plumbing-view) body
        for k_ in [lk_fn] + sorted(c_ for c_ in prog.closures_of(lk_fn) if c_ not in _spliced_here):
            kb_ = prog.body(k_)
            for (bb_, t_) in kb_.calls():
                n_ = callee_name(t_)
                is_user = n_.endswith("HashMap::<K, V, S, A>::get") and any(
                    (x.k == "field" and x.a[1] == _ph.roles(prog)["user_autocorrect"]) for x in _su(prog, k_, kb_.expr_operand(t_["args"][0])).walk()) \
                    if prog.fns[k_].get("kind") == "Closure" else \
                    (n_.endswith("HashMap::<K, V, S, A>::get") and self_path(kb_.expr_operand(t_["args"][0])) is not None
                     and self_path(kb_.expr_operand(t_["args"][0]))[-1:] == (_ph.roles(prog)["user_autocorrect"],))
                is_bundled = n_.startswith("data::Data::") and n_ in prog.fns and prog.fns[n_].get("output", "").startswith("std::option::Option<&")
                if not (is_user or is_bundled):
                    continue
                key_e = kb_.expr_operand(t_["args"][1])
                if prog.fns[k_].get("kind") == "Closure":
                    key_e = _su(prog, k_, key_e)
                key_e = strip_refs(peel_conv(key_e))
                asks.append(("user" if is_user else "bundled", key_e, kb_, bb_))
        lkb = prog.body(lk_fn)
        from . import c17 as _c17k
        _acc = _c17k.accessors(prog)

        def _is_typed_word(e_):
            # the look-up's own word parameter, or (look-up written in place in the builder) the word part of the builder's split value
            if e_.k == "arg" and lkb.locals[e_.a[0]]["ty"] == "&str":
                return True
            return e_.k == "call" and _acc.get(e_.a[0]) == "word" and e_.a[1] and strip_refs(peel_conv(e_.a[1][0])).k == "arg"
        bad_key = [(w, e_, kb_, bb_) for (w, e_, kb_, bb_) in asks if not _is_typed_word(e_)]
        n_user = sum(1 for a_ in asks if a_[0] == "user")
        n_bund = sum(1 for a_ in asks if a_[0] == "bundled")
        if not asks:
            r3.undecidable("lookup-key", "no table look-up found in the auto-correct look-up", common.fn_line(prog, lk_fn))
        elif bad_key:
            w, e_, kb_, bb_ = bad_key[0]
            r3.violation("lookup-key", "the %s auto-correct table is asked for %s, not for the typed word itself: an entry of another key can be offered as "
                         "the word's auto-correct entry (and can pre-empt the word's own entry in the other table)" % (w, repr(e_)[:160]), site_of(kb_, bb_))
        elif n_user != 1 or n_bund != 1:
            r3.violation("lookup-key", "the auto-correct look-up asks the user table %d time(s) and the bundled table %d time(s); one look-up each, for the typed word"
                         % (n_user, n_bund), common.fn_line(prog, lk_fn))
        else:
            r3.ok("lookup-key", "user table and bundled table are each asked once, for the typed word itself")
    # the distance constructor: edit_distance(base, item) through a monotone map
    for k, info in ctors.items():
        if info["variant"] != "Other":
            continue
        rk = info["rank"]
        ed = contains_call(rk, lambda n: n.endswith("edit_distance"))
        good = False
        if ed is not None:
            a0, a1 = peel_conv(ed.a[1][0]), peel_conv(ed.a[1][1])
            args = {a0.a[0] if a0.k == "arg" else None, a1.a[0] if a1.k == "arg" else None}
            mul = [x for x in rk.walk() if x.k == "bin" and x.a[0] in ("MulWithOverflow", "Mul")]
            cpos = all(is_const(strip_refs(m.a[2]), "int") and 0 < const_val(strip_refs(m.a[2])) <= 10 for m in mul)
            other_ops = [x for x in rk.walk() if x.k == "bin" and x.a[0] not in ("MulWithOverflow", "Mul")]
            good = args == {1, 2} and cpos and not other_ops
        if good:
            r3.ok("distance-ctor", "Other rank = edit_distance(base, item) × c (monotone, c ≤ 10)")
            r3.assume("distance × 10 stays below 256 (longest dictionary word has 23 code points; `as u8` would wrap from distance 26)")
        else:
            r3.violation("distance-ctor", "the Other rank is %r — not a monotone map (×c, 0<c≤10) of edit_distance(base, item)" % (rk,), common.fn_line(prog, k))
    # suffix clones keep rank: change_item exposes only the item string
    ci = [k for k, f in prog.fns.items() if (f.get("impl") or {}).get("self") == builders.RANK and f.get("output") == "&mut std::string::String"]
    if len(ci) == 1:
        cb = prog.body(ci[0])
        okc = True
        n_arm = 0
        for conds, ret, path in path_table(cb):
            r, f = apath(ret) if ret is not None else (None, None)
            n_arm += 1
            if not (r is not None and r.k == "arg" and len(f) == 2 and f[1] in ("0", 0)):
                okc = False
        if okc and n_arm == len(variants):
            r3.ok("change-item", "the item mutator exposes only the text of each variant (rank untouched)")
        else:
            r3.violation("change-item", "the item mutator does not return the text field for every variant", common.fn_line(prog, ci[0]))
    # ordering of sort
    top = [k for k in reach if any(callee_name(t).endswith("]>::sort") or "::sort" in callee_name(t) for (bb, t) in prog.body(k).calls())
           and prog.fns[k].get("kind") != "Closure"]
    if len(top) != 1:
        r3.undecidable("sort", "expected exactly one sorting function in the phonetic builders, found %s" % top)
    else:
        sb = prog.body(top[0])
        sorts = [(bb, t) for (bb, t) in sb.calls() if "::sort" in callee_name(t)]
        sbb, st = sorts[0]
        if len(sorts) != 1:
            r3.violation("sort", "the list is sorted %d times" % len(sorts), site_of(sb, sbb))
        else:
            after = sb.reachable_from(sb.blocks[sbb]["term"]["target"])
            late = [p for p in events if p.fn == top[0] and p.outer_bb in after]
            late_calls = [bb for (bb, t) in sb.calls() if bb in after and callee_name(t) in reach and
                          any(q.fn == callee_name(t) for q in events)]
            if late or late_calls:
                bbx = late[0].outer_bb if late else late_calls[0]
                r3.violation("sort", "a candidate is pushed after the list has been sorted", site_of(sb, bbx))
            else:
                # look-up (position) and returned clone after sort
                users = [(bb, t) for (bb, t) in sb.calls() if (callee_name(t).endswith("Clone>::clone") and "Vec<suggestion::Rank>" in t["args"][0]["place"]["ty"])
                         or (callee_name(t) in prog.fns and contains_call(prog.body(callee_name(t)).expr_local(0), lambda n: n.endswith("::position")))]
                if users and all(sb.dominates(sbb, bb) for bb, t in users):
                    r3.ok("sort", "sort dominates the selection look-up and the returned copy; no push after it")
                else:
                    r3.violation("sort", "the selection look-up or the returned copy is not dominated by the sort", site_of(sb, sbb))
    r3.floor(13, "6 sources + english guards + last-order + user-first + lookup-key + distance ctor + change-item + sort")

    # ---------------- R4 duplicates
    r4 = chk.rule("C07.R4", "dictionary/suffix items and the transliteration enter through the duplicate-suppressing push; equality is on text",
                  "no candidate text occurs twice (for the stated sources)")
    pc = [k for k, f in prog.fns.items() if k == "utility::push_checked" or (builders._is_push_helper(prog, k) if f.get("inputs") else False)]
    for k in pc:
        pb = prog.body(k)
        pushes = [(bb, t) for (bb, t) in pb.calls() if callee_name(t).endswith("::push")]
        good = False
        for (bb, t) in pushes:
            for (d, pol, s) in guards_of(pb, bb):
                if d.k == "call" and d.a[0].endswith("::contains") and pol is False:
                    v = peel_conv(d.a[1][1])
                    recv = peel_conv(d.a[1][0])
                    pushed = strip_refs(pb.expr_operand(t["args"][1]))
                    if v.k == "arg" and pushed.k == "arg" and v.a[0] == pushed.a[0] and apath(recv)[0].k == "arg":
                        good = True
        if good and len(pushes) == 1:
            r4.ok("helper", "push only when !vec.contains(&value)")
        else:
            r4.violation("helper", "the checked push helper does not guard its push by !contains(value)", common.fn_line(prog, k))
    eqf = [k for k, f in prog.fns.items() if (f.get("impl") or {}).get("trait_ref") == "<suggestion::Rank as std::cmp::PartialEq>" and f.get("name") == "eq"]
    if len(eqf) == 1:
        eb = prog.body(eqf[0])
        ret = strip_refs(eb.expr_local(0))
        ts = [k for k, f in prog.fns.items() if (f.get("impl") or {}).get("self") == builders.RANK and f.get("output") == "&str"]
        good = (ret.k == "call" and ret.a[0].endswith("::eq") and len(ret.a[1]) == 2 and
                all(peel_conv(x).k == "call" and peel_conv(x).a[0] in ts for x in ret.a[1]) and
                {peel_conv(peel_conv(x).a[1][0]).a[0] for x in ret.a[1] if peel_conv(peel_conv(x).a[1][0]).k == "arg"} == {1, 2})
        if good:
            r4.ok("equality", "Rank == Rank compares the candidate texts only")
        else:
            r4.violation("equality", "Rank equality is %r — duplicate suppression needs text-only equality" % (ret,), common.fn_line(prog, eqf[0]))
    else:
        r4.undecidable("equality", "impl PartialEq for Rank not found uniquely")
    # the function that fills the memo (its forwarded pushes are the dictionary / suffix items): found by role — it inserts into the memo field
    from . import phonetic as _ph
    _R = _ph.roles(prog)
    fill_fns = set()
    for k_, f_ in prog.fns.items():
        if ((f_.get("impl") or {}).get("self") or "") == _R["sug_ty"] and f_.get("kind") != "Closure":
            b_ = prog.body(k_)
            if any(callee_name(t_).endswith("::insert") and "HashMap" in callee_name(t_) and self_path(b_.expr_operand(t_["args"][0])) == (_R["memo"],) for (_, t_) in b_.calls()):
                fill_fns.add(k_)
    # … or calls the private stage that does
    cg_ = prog.callgraph()
    fill_fns |= {k_ for k_, f_ in prog.fns.items() if ((f_.get("impl") or {}).get("self") or "") == _R["sug_ty"] and f_.get("kind") != "Closure"
                 and (set(cg_[k_]) & fill_fns)}
    for p in events:
        src = classify_source(prog, p) if p.item is not None else None
        fwd = p.item is None and p.kind in ("push", "push_checked") and p.fn in fill_fns
        if src in ("transliteration",) or fwd:
            key = "%s@%s" % (src or "dictionary/suffix", p.fn.split("::")[-1])
            if p.kind == "push_checked":
                r4.ok(key, "enters through the checked push")
            else:
                r4.violation(key, "%s items are pushed without the duplicate check" % (src or "dictionary/suffix"), site_of(p.outer_body, p.outer_bb))
    # the raw English candidate: nothing compares it with the candidates already in the list (only with the captured punctuation), so a text
    # the conversion leaves unchanged is listed twice
    for p in events:
        if p.item is None or classify_source(prog, p) != "english":
            continue
        key = "english-unchecked" if p.kind in ("push", "extend") else "english@%s" % p.fn.split("::")[-1]
        if p.kind == "push_checked":
            r4.ok(key, "the English candidate enters through the checked push")
            continue
        gs_ = builders.effective_guards(prog, p.outer_body, p.outer_bb, closure=getattr(p, 'closure', None))
        compared = any(d.k == "call" and (d.a[0].endswith("::contains") or d.a[0].endswith("Iterator>::any") or d.a[0].endswith("::position"))
                       and any(self_path(x) is not None and self_path(x)[:1] == (_R["rank_list"],) for x in d.walk()) for (d, pol, s_) in gs_)
        if compared:
            r4.ok(key, "the English candidate is pushed only when the list does not contain it")
        else:
            r4.violation(key, "the raw English candidate is pushed without being compared with the candidates already in the list: a typed text the conversion leaves "
                         "unchanged (`\\` alone: transliteration `\\`, English `\\`) occurs twice", site_of(p.outer_body, p.outer_bb))
    # the literal typed text offered next to the emoji of an emoticon: the same question
    for p in events:
        if p.item is None or classify_source(prog, p) != "emoticon-literal":
            continue
        key = "emoticon-literal-unchecked" if p.kind in ("push", "extend") else "emoticon-literal@%s" % p.fn.split("::")[-1]
        if p.kind == "push_checked":
            r4.ok(key, "the emoticon's literal text enters through the checked push")
            continue
        gs_ = builders.effective_guards(prog, p.outer_body, p.outer_bb, closure=getattr(p, 'closure', None))
        compared = any(d.k == "call" and (d.a[0].endswith("::contains") or d.a[0].endswith("Iterator>::any") or d.a[0].endswith("::position"))
                       and any(self_path(x) is not None and self_path(x)[:1] == (_R["rank_list"],) for x in d.walk()) for (d, pol, s_) in gs_)
        if compared:
            r4.ok(key, "the emoticon's literal text is pushed only when the list does not contain it")
        else:
            r4.violation(key, "the literal text of a typed emoticon is pushed without being compared with the candidates already in the list: an emoticon the "
                         "conversion leaves unchanged (`=\\`: transliteration `=\\`, literal `=\\`) occurs twice", site_of(p.outer_body, p.outer_bb))
    r4.floor(5, "helper, equality, dictionary/suffix loop, transliteration, English")

    # ---------------- R5 the bundled tables are the data files'
    r5 = chk.rule("C07.R5", "the auto-correct, dictionary and suffix tables are the bundled data files as deserialised (nothing pruned or rewritten after loading)",
                  "the auto-correct entry for the typed word, when one exists, is first — 'exists' means: is in the data file")
    data_ty = "data::Data"
    dctor = [k for k, f in prog.fns.items() if ((f.get("impl") or {}).get("self") or "") == data_ty and not (f.get("impl") or {}).get("trait")
             and f.get("output") in ("Self", data_ty) and f.get("inputs") == ["&config::Config"]]
    if len(dctor) > 1:
        # private stages with the constructor's signature: the constructor is the one called from outside the type
        cg5 = prog.callgraph()
        outer5 = [k for k in dctor if any(k in cg5[c] for c in prog.fns if ((prog.fns[c].get("impl") or {}).get("self") or "") != data_ty)]
        if len(outer5) == 1:
            dctor = outer5
    if len(dctor) != 1:
        r5.undecidable("load", "Data's constructor fn(&Config) -> Data not found uniquely: %s" % dctor)
    else:
        # the tables: HashMap fields of Data itself or of a private struct it embeds; their constructors: whatever reachable from Data's builds that struct
        owners = [data_ty] + [re.sub(r"<.*$", "", fl["ty"]) for fl in prog.struct_fields(data_ty)
                              if re.sub(r"<.*$", "", fl["ty"]) in prog.adts and prog.adts[re.sub(r"<.*$", "", fl["ty"])].get("kind") == "struct"
                              and not re.sub(r"<.*$", "", fl["ty"]).startswith("emojicon")]
        reach5 = sorted(prog.reach([dctor[0]], foreign_trait_impls=False))
        for own in owners:
            maps = [fl["name"] for fl in prog.struct_fields(own) if fl["ty"].startswith("std::collections::HashMap<")]
            if not maps:
                continue
            builders5 = [k for k in reach5 if any(st["k"] == "assign" and st["rv"]["k"] == "aggregate" and st["rv"].get("adt") == own
                                                   for bl in prog.fns[k]["mir"]["blocks"] for st in bl["stmts"])]
            common.verbatim_loads(r5, prog, builders5 or [dctor[0]], own, maps, "table")
    r5.floor(3, "three tables")
    nacc = common.pure_table_accessors(r5, prog, data_ty)
    r5.floor(3 + min(nacc, 2), "three tables + the table accessors")


def _is_words_source(prog, n, depth=0):
    """The table accessor of the dictionary, or an accessor of the data type built on it (`search_words(table, pattern)` = the table's words
    that match): its answers are dictionary words."""
    if n.endswith("get_words_for"):
        return True
    f = prog.fns.get(n)
    if f is None or depth > 1 or not ((f.get("impl") or {}).get("self") or "").startswith("data::Data") or (f.get("impl") or {}).get("trait"):
        return False
    try:
        ret = prog.body(n).expr_local(0)
    except Exception:
        return False
    return contains_call(ret, lambda m: m != n and _is_words_source(prog, m, depth + 1)) is not None


def classify_source(prog, p):
    item = p.item
    if item is None:
        return None
    if p.variant == "Emoji" or contains_call(item, lambda n: "get_emoji_by" in n or n.startswith("emojicon::")):
        return "emoji"
    if p.closure:
        cc = closure_consumer(prog, p.closure)
        if cc:
            pb, bb, t, ai = cc
            recv = pb.expr_operand(t["args"][0])
            if contains_call(recv, lambda n: "get_emoji_by" in n):
                return "emoji"
            if contains_call(recv, lambda n: _is_words_source(prog, n)):
                return "dictionary"
            from . import phonetic as _ph0
            if _ph0.is_autocorrect_value(prog, recv):
                return "autocorrect"            # `look-up.map(|correct| Rank::…(convert(correct)))`: the closure's parameter is the look-up's payload
    from . import phonetic as _ph
    if _ph.is_autocorrect_value(prog, item):
        return "autocorrect"
    if contains_call(item, lambda n: _is_words_source(prog, n)):
        return "dictionary"
    pe = peel_conv(item)
    sp = self_path(pe)
    body = p.body
    if sp is not None and pe.k != "call":
        # a scratch buffer filled by convert_into(word): the transliteration
        for (bb, t) in body.calls():
            if callee_name(t).endswith("Parser::convert_into"):
                out = self_path(body.expr_operand(t["args"][2]))
                if out == sp:
                    return "transliteration"
    if p.closure and pe.k != "arg":
        # built inside a closure (`cond.then(|| Rank::last_ranked(term.to_string(), 3))`): the captured value is the creator's
        from engine.analyses import subst_upvars as _su2, closure_creation as _cc2
        pe2 = peel_conv(_su2(prog, p.closure, item))
        cc2 = _cc2(prog, p.closure)
        if pe2.k == "arg" and cc2:
            pe, body = pe2, cc2[0]
    if pe.k == "arg" and body.locals[pe.a[0]]["ty"] == "&str":
        rv = strip_refs(p.rankval) if p.rankval is not None else None
        # two raw-text pushes exist: the emoticon literal (inside the emoticon arm) and the English candidate
        g = builders.effective_guards(prog, p.outer_body, p.outer_bb, closure=getattr(p, 'closure', None))
        in_emoticon_arm = any(d.k == "discr" and contains_call(d, lambda n: n.endswith("get_emoji_by_emoticon")) for (d, pol, s) in g)
        return "emoticon-literal" if in_emoticon_arm else "english"
    return None


def _dictionary_base_is_transliteration(prog, p):
    """new_suggestion(word, base): base must be (a parameter bound to) the transliteration of the word."""
    r = p.rank
    if r is None or r.k != "call" or len(r.a[1]) < 2:
        return False
    base = peel_conv(r.a[1][1])
    # inside the closure: base is an upvar → resolve to the creating function's expression
    from engine.analyses import closure_creation
    key = p.closure
    hops = 0
    while key and hops < 4:
        cc = closure_creation(prog, key)
        if not cc:
            break
        pb, i, j, s, ups = cc
        root, f = apath(base)
        if root.k == "arg" and root.a[0] == 1 and f and str(f[0]).isdigit():
            base = peel_conv(ups[int(f[0])])
        key = pb.key if prog.fns[pb.key].get("kind") == "Closure" else None
        owner = pb
        hops += 1
    # now base should be a &str parameter of the dictionary function (possibly handed down through private helpers)
    if key is None and not p.closure:
        owner = p.body
    if base.k != "arg":
        return _is_transliteration(prog, owner, base)
    origins = _param_origins(prog, owner.key, base.a[0])
    if not origins:
        return False
    return all(_is_transliteration(prog, cb, e) for (cb, e) in origins)


def _param_origins(prog, fn, pidx, depth=0):
    """[(caller body, E)] the expressions bound to parameter pidx of fn at its call sites, followed up through parameters."""
    out = []
    sites = prog.call_sites.get(fn, [])
    if not sites or depth > 4:
        return []
    for (caller, bb, t) in sites:
        cb = prog.body(caller)
        e = peel_conv(cb.expr_operand(t["args"][pidx - 1]))
        if e.k == "arg" and prog.fns[caller].get("kind") != "Closure":
            up = _param_origins(prog, caller, e.a[0], depth + 1)
            if not up:
                return []
            out.extend(up)
        else:
            out.append((cb, e))
    return out


def _is_transliteration(prog, cb, e):
    """e is (a clone of) the scratch buffer that convert_into(phonetic parser, word) wrote in cb."""
    a = peel_conv(e)
    sp = self_path(a)
    if sp is None:
        return False
    for (bb2, t2) in cb.calls():
        if callee_name(t2).endswith("Parser::convert_into") and self_path(cb.expr_operand(t2["args"][2])) == sp \
                and phonetic.is_phonetic_parser(prog, cb.expr_operand(t2["args"][0])):
            return True
    return False
