"""Character classes read as *sets* from the predicates' MIR (whatever their spelling), and the
independent Unicode-derived expectations they are compared with."""
from engine.analyses import PredEval, BENGALI_DOMAIN
from engine.program import AnchorError

SIGNS10 = set("ািীুূৃেৈোৌ")
INDEP11 = set("অআইঈউঊঋএঐওঔ")
ALL_INDEP = set(chr(c) for c in list(range(0x0985, 0x098D)) + [0x098F, 0x0990, 0x0993, 0x0994, 0x09E0, 0x09E1])
ALL_SIGNS = set(chr(c) for c in list(range(0x09BE, 0x09C5)) + [0x09C7, 0x09C8, 0x09CB, 0x09CC, 0x09D7, 0x09E2, 0x09E3])
CONSONANTS = set(chr(c) for c in list(range(0x0995, 0x09A9)) + list(range(0x09AA, 0x09B1)) + [0x09B2] + list(range(0x09B6, 0x09BA))
                 + [0x09CE, 0x09DC, 0x09DD, 0x09DF])
ALL_CONS = CONSONANTS | {"ৰ", "ৱ"}
LIGATURE = set("ুূৃ")
LEFT_STANDING = set("িেৈ")


ROLE_SETS = None


def class_fns(prog):
    """Role → fn key: the three `… for char` trait predicates (vowel, vowel sign, consonant), ligature-making and left-standing.
    A predicate is given its role by its name when the name is one of the five; a role nobody is named after goes to the still
    unnamed predicate whose *set* (evaluated over the Bengali block) is most similar to the role's expected set — so a renamed
    predicate keeps its role and a predicate with a wrong member is still found (and then reported by the class rule)."""
    if getattr(prog, "_class_fns", None) is not None:
        return prog._class_fns
    out = {}
    cands = {}
    for k, f in prog.fns.items():
        imp = f.get("impl") or {}
        if imp.get("self") == "char" and imp.get("trait") and f.get("output") == "bool" and len(f.get("inputs") or []) == 1 and not imp.get("trait", "").startswith("std::"):
            cands[k] = f["name"]
    # free fn(char)->bool predicates
    for k, f in prog.fns.items():
        if f.get("inputs") == ["char"] and f.get("output") == "bool" and not f.get("impl"):
            cands[k] = f["name"]
    for k, n in cands.items():
        out[n] = k
    roles = {"is_vowel": INDEP11 | SIGNS10, "is_kar": SIGNS10, "is_pure_consonant": CONSONANTS, "is_ligature_making_kar": LIGATURE,
             "is_left_standing_kar": LEFT_STANDING}
    missing = [r for r in roles if r not in out]
    if missing:
        pe = PredEval(prog)
        free = {k: n for k, n in cands.items() if n not in roles}
        sets = {k: pe.char_set(k, BENGALI_DOMAIN) for k in sorted(free)}
        for r in missing:
            best, score = None, 0.0
            for k, cs in sorted(sets.items()):
                if not cs:
                    continue
                j = len(cs & roles[r]) / float(len(cs | roles[r]))
                if j > score:
                    best, score = k, j
            if best is not None and score >= 0.6:
                out[r] = best
                del sets[best]
    prog._class_fns = out
    return out


def class_sets(prog):
    pe = PredEval(prog)
    fns = class_fns(prog)
    return {name: (k, pe.char_set(k, BENGALI_DOMAIN)) for name, k in fns.items()}, pe


def check_classes(rule, prog, which, fn_line):
    """Shared rule body: compares the extracted sets with the Unicode-derived expectations."""
    sets, pe = class_sets(prog)

    def fmt(s):
        return " ".join("U+%04X" % ord(c) for c in sorted(s))
    spec = {
        # every vowel letter and vowel sign of the Bengali block (the bundled layout types all of them); the AU length mark U+09D7 is no
        # vowel sign (it has a rule of its own) and may or may not be in the classes
        "is_vowel": (ALL_INDEP | (ALL_SIGNS - {"\u09d7"}), ALL_INDEP | ALL_SIGNS, "independent vowels and vowel signs (Sanskrit ones included)"),
        "is_kar": (ALL_SIGNS - {"\u09d7"}, ALL_SIGNS, "the vowel signs া…ৄ ে ৈ ো ৌ ৢ ৣ"),
        "is_pure_consonant": (CONSONANTS, ALL_CONS, "consonants ক..হ ড় ঢ় য় ৎ"),
        "is_ligature_making_kar": (LIGATURE, LIGATURE, "exactly ু ূ ৃ"),
        "is_left_standing_kar": (LEFT_STANDING, LEFT_STANDING, "exactly ি ে ৈ"),
    }
    for name in which:
        if name not in sets:
            rule.undecidable("class:%s" % name, "character-class predicate %s not found" % name)
            continue
        k, s = sets[name]
        if s is None:
            rule.undecidable("class:%s" % name, "cannot evaluate %s over the Bengali block from its MIR" % k, fn_line(prog, k))
            continue
        lo, hi, desc = spec[name]
        missing = lo - s
        extra = s - hi
        if missing:
            rule.violation("class:%s" % name, "%s lacks %s (must contain %s)" % (name, fmt(missing), desc), fn_line(prog, k), {"set": fmt(s)})
        elif extra:
            rule.violation("class:%s" % name, "%s wrongly contains %s" % (name, fmt(extra)), fn_line(prog, k), {"set": fmt(s)})
        else:
            rule.ok("class:%s" % name, "%d characters, ⊇ %s" % (len(s), desc))
    # every vowel sign is a vowel (the rules say "after a vowel or vowel sign" and test is_vowel)
    if all(n in sets and sets[n][1] is not None for n in ("is_vowel", "is_kar")) and {"is_vowel", "is_kar"} <= set(which):
        odd = sets["is_kar"][1] - sets["is_vowel"][1]
        if odd:
            rule.violation("class:signs-are-vowels", "is_kar is true for %s but is_vowel is not: after such a sign the 'after a vowel or vowel sign' rules do not apply "
                           "and the reph scan does not count it" % fmt(odd), fn_line(prog, sets["is_vowel"][0]))
        else:
            rule.ok("class:signs-are-vowels", "is_kar ⊆ is_vowel")
    # disjointness
    if all(n in sets and sets[n][1] is not None for n in ("is_vowel", "is_pure_consonant")) and {"is_vowel", "is_pure_consonant"} <= set(which):
        inter = sets["is_vowel"][1] & sets["is_pure_consonant"][1]
        if inter:
            rule.violation("class:disjoint", "vowels and consonants overlap on %s" % fmt(inter), fn_line(prog, sets["is_vowel"][0]))
        else:
            rule.ok("class:disjoint", "vowel and consonant classes are disjoint")
    return sets
