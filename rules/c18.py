"""C18 — every emoticon and emoji name in the tables produces its emoji.

Decided statically: which text each look-up receives, look-up order, unconditional push in the
emoticon arm (and the literal kept in phonetic mode), the shape of the name arm's iterator chain
(all entries, in order, ranks 1..n, same wrapping as the word), emoji only through the Emoji rank,
stable sort where the comparator leaves emoji equal, room under the fixed-mode cap, plumbing of the
data accessors, and no shrinking of the phonetic list.  Not decided: the per-table-entry outcome."""
from engine.mir import E, apath, strip_refs, is_const, const_val, callee_name, self_path
from engine.analyses import (peel_conv, guards_of, contains_call, closure_consumer, closure_creation, subst_upvars, format_parts,
                             ModSets, VecBounds)
from engine.report import site_of
from engine import tables
from . import common, builders, c17, c07


def split_part(prog, body, e, acc, astuple):
    """(part name, E of the split value) if e is (a copy of) one part of a SplittedString."""
    e = peel_conv(e)
    if e.k == "call" and e.a[0] in acc:
        return acc[e.a[0]], strip_refs(e.a[1][0])
    if e.k == "field" and isinstance(e.a[1], int) and strip_refs(e.a[0]).k == "call" and strip_refs(e.a[0]).a[0] in astuple:
        parts = astuple[strip_refs(e.a[0]).a[0]]
        if e.a[1] < len(parts):
            return parts[e.a[1]], strip_refs(strip_refs(e.a[0]).a[1][0])
    return None


def as_tuple_fns(prog, acc):
    out = {}
    for k, f in prog.fns.items():
        if not (f.get("impl") or {}).get("self", "").startswith(c17.SPLIT_TY) or f.get("output") != "(&str, &str, &str)":
            continue
        b = prog.body(k)
        r = strip_refs(b.expr_local(0))
        if r.k == "agg" and r.a[0] == "tuple":
            parts = []
            for x in r.a[1]:
                x = peel_conv(x)
                parts.append(acc.get(x.a[0]) if x.k == "call" else None)
            out[k] = parts
    return out


def run(ctx):
    prog, chk = ctx.prog, ctx.check
    chk.explanation = (
        "Provenance of the arguments of the emoticon / name look-ups, dominance order of the two look-ups and of the pushes inside their "
        "arms, structural summary of the name arm's iterator chain and mapping closure (with captured variables substituted), the sort "
        "callee against the extracted comparator leaf Emoji×Emoji, table agreement of the fixed-mode cap with the longest Bengali list, "
        "and the data accessors' plumbing.")
    chk.not_decided = ["which of the emoticons the splitter captures as punctuation (per-entry, value-level)",
                       "displacement of dictionary words by the nine-item cap in fixed mode"]
    roles = builders.method_roles(prog)
    ctors = builders.rank_ctors(prog)
    acc = c17.accessors(prog)
    astuple = as_tuple_fns(prog, acc)
    ph, fx = builders.phonetic_ty(prog), builders.fixed_ty(prog)
    mods = ctx.memo("modsets", lambda: ModSets(prog))

    # data accessors: role = Data methods that call emojicon
    data_acc = {}
    r7 = chk.rule("C18.R7", "data accessors hand their argument unchanged to the emoji tables",
                  "typing any emoticon / name of the bundled tables offers its emoji")
    for k, f in prog.fns.items():
        if (f.get("impl") or {}).get("self") != "data::Data" or f.get("kind") == "Closure":
            continue
        b = prog.body(k)
        ret = strip_refs(b.expr_local(0))
        if ret.k == "call" and ret.a[0].startswith("emojicon::"):
            kind = {"emojicon::Emojicon::get_by_emoticon": "emoticon", "emojicon::Emojicon::get_by_name": "name",
                    "emojicon::BengaliEmoji::get": "bengali"}.get(ret.a[0])
            data_acc[k] = kind
            a = strip_refs(ret.a[1][1])
            recv = self_path(ret.a[1][0])
            if a.k == "arg" and a.a[0] == 2 and kind:
                r7.ok(kind, "%s(name) = %s(name)" % (k.split("::")[-1], ret.a[0]))
            else:
                r7.violation(kind or k, "accessor %s passes %r to %s instead of its own argument" % (k, a, ret.a[0]), common.fn_line(prog, k))
        elif contains_call(ret, lambda n: n.startswith("emojicon::") and "::get" in n) or any(callee_name(t).startswith("emojicon::Emojicon::get") or callee_name(t).startswith("emojicon::BengaliEmoji::get") for (bb, t) in b.calls()):
            r7.violation(k.split("::")[-1], "accessor %s does not return the table look-up of its argument directly: %r" % (k, ret), common.fn_line(prog, k))
            for (bb, t) in b.calls():
                n = callee_name(t)
                if n.startswith("emojicon::") and "get" in n:
                    data_acc[k] = {"emojicon::Emojicon::get_by_emoticon": "emoticon", "emojicon::Emojicon::get_by_name": "name",
                                   "emojicon::BengaliEmoji::get": "bengali"}.get(n)
    r7.floor(3, "three accessors")
    emoticon_acc = [k for k, v in data_acc.items() if v == "emoticon"]
    name_acc = {k: v for k, v in data_acc.items() if v in ("name", "bengali")}

    r1 = chk.rule("C18.R1", "emoticon look-up on the whole typed text, name look-up on the word part",
                  "typing any emoticon offers its emoji; typing an emoji name offers its emoji, wrapped like the word")
    r8 = chk.rule("C18.R8", "the emoticon look-up is tried first; the name look-up only when it found nothing",
                  "typing any emoticon of the table offers its emoji (ten emoticons contain an emoji name as their word part)")
    r2 = chk.rule("C18.R2", "emoticon arm pushes the emoji unconditionally; phonetic keeps the literal text unless it is the captured punctuation",
                  "the emoji is offered; in phonetic mode the literal typed text also stays available")
    r3 = chk.rule("C18.R3", "name arm: all table entries, in order, ranks 1.., wrapped in the word's own (converted, curled) punctuation",
                  "offers all emoji listed for the name, in table order and wrapped in the same surrounding punctuation as the word")
    r4 = chk.rule("C18.R4", "emoji enter only through the Emoji rank class",
                  "the presence of emoji never reorders the non-emoji candidates (they cannot displace First / reorder Other)")
    r5 = chk.rule("C18.R5", "sort is stable wherever the comparator leaves two emoji equal",
                  "emoji of one name appear in table order")
    r6 = chk.rule("C18.R6", "fixed-mode cap leaves room for the longest Bengali emoji list",
                  "offers all emoji listed for a Bengali name")
    r9 = chk.rule("C18.R9", "phonetic list is never shrunk after candidates were gathered",
                  "the presence of emoji never removes non-emoji candidates")

    ck, ctab = c07.comparator_table(prog)
    emoji_equal = ctab is not None and ctab.get(("Emoji", "Emoji"), (("other", None),))[0] == ("const", 0)
    emo = tables.emojicon_tables()

    for ty, mode in ((ph, "phonetic"), (fx, "fixed")):
        gs = roles[ty]["get_suggestion"]
        reach = prog.reach([gs, prog.method_impl(ty, "backspace_event")], foreign_trait_impls=False)
        # the builder = the function calling an emoticon accessor
        bks = [k for k in reach if prog.fns[k].get("kind") != "Closure" and any(callee_name(t) in emoticon_acc for (bb, t) in prog.body(k).calls())]
        if len(bks) != 1:
            r1.undecidable("%s:builder" % mode, "expected one function calling the emoticon look-up in %s mode, found %s" % (mode, bks))
            continue
        fk = bks[0]
        b = prog.body(fk)
        evs = builders.push_events(prog, fk, ctors)
        # the emoji are wrapped with the parts of *the* split value of the builder (the one that is converted / curled): a stage that splits the text
        # again wraps them in raw punctuation
        sp18 = c17.split_fn(prog)
        split_owner = fk if any(callee_name(t) == sp18 for (_, t) in b.calls()) else None
        if split_owner is None:
            cands18 = [k for k in prog.reach([builders.builder_root(prog, fk)[0]], foreign_trait_impls=False)
                       if k in prog.fns and prog.fns[k].get("kind") != "Closure" and any(callee_name(t) == c17.quoter_fn(prog) for (_, t) in prog.body(k).calls())]
            split_owner = cands18[0] if len(cands18) == 1 else fk
        _root18, extra18 = builders.second_splits(prog, split_owner, sp18, ctors)
        if extra18:
            r3.violation("%s:single-split" % mode, "%s splits the text again and wraps candidates with the parts of that second split value, which is neither converted nor "
                         "curled like the word's own punctuation" % extra18[0].split("::")[-1], common.fn_line(prog, extra18[0]))
        else:
            r3.ok("%s:single-split" % mode, "one split value per builder")
        emo_calls = [(bb, t) for (bb, t) in b.calls() if callee_name(t) in emoticon_acc]
        name_calls = [(bb, t) for (bb, t) in b.calls() if callee_name(t) in name_acc]
        want_name_kind = "name" if mode == "phonetic" else "bengali"
        # ---- R1 arguments
        for (bb, t) in emo_calls:
            a = peel_conv(b.expr_operand(t["args"][1]))
            if mode == "phonetic":
                good = a.k == "arg" and b.locals[a.a[0]]["ty"] == "&str" and any(
                    callee_name(t2) == c17.split_fn(prog) and peel_conv(b.expr_operand(t2["args"][0])) == a for (_, t2) in b.calls())
                desc = "the raw typed text parameter"
            else:
                sp = self_path(a)
                good = sp is not None and len(sp) == 1 and sp[0] in roles[ty]["raw"]
                desc = "the raw-key string self.%s" % "/".join(roles[ty]["raw"])
            if good:
                r1.ok("%s:emoticon-arg" % mode, "emoticon look-up receives %s" % desc)
            else:
                r1.violation("%s:emoticon-arg" % mode, "emoticon look-up receives %r, expected %s (the whole typed text)" % (a, desc), site_of(b, bb))
        for (bb, t) in name_calls:
            if name_acc[callee_name(t)] != want_name_kind:
                r1.violation("%s:name-table" % mode, "%s mode looks names up in the %s table" % (mode, name_acc[callee_name(t)]), site_of(b, bb))
                continue
            name_e = b.expr_operand(t["args"][1])
            stripped = None
            if mode == "fixed":
                # the composed word can contain the non-joiners that traditional joining / a doubled hasanta insert: they are not part of a name
                for x in name_e.walk():
                    if x.k == "call" and x.a[0].endswith("::replace") and "str" in x.a[0] and len(x.a[1]) == 3:
                        pat, rep = strip_refs(x.a[1][1]), strip_refs(x.a[1][2])
                        if ((is_const(pat, "char") or is_const(pat, "str")) and const_val(pat) == "\u200c") and is_const(rep, "str") and const_val(rep) == "":
                            stripped = x.a[1][0]
            sp_ = split_part(prog, b, stripped if stripped is not None else name_e, acc, astuple)
            if mode == "fixed" and sp_ and sp_[0] == "word" and stripped is None:
                r1.violation("%s:name-arg" % mode, "the Bengali name look-up receives the composed word as it is; with traditional joining (or a doubled hasanta) the word contains "
                             "U+200C, which no emoji name contains — such names (e.g. কুল typed as ক‌ুল) offer no emoji. The dictionary search strips the joiner, this look-up must too",
                             site_of(b, bb))
            elif sp_ and sp_[0] == "word":
                r1.ok("%s:name-arg" % mode, "name look-up receives word() of the split value" + (" with the non-joiners removed" if stripped is not None else ""))
            else:
                r1.violation("%s:name-arg" % mode, "name look-up receives %r, expected the word part of the split typed text"
                             % (peel_conv(b.expr_operand(t["args"][1])),), site_of(b, bb))
        if len(emo_calls) != 1 or len(name_calls) != 1:
            r1.violation("%s:lookups" % mode, "expected one emoticon and one name look-up, found %d / %d" % (len(emo_calls), len(name_calls)), common.fn_line(prog, fk))
            continue
        ebb, et = emo_calls[0]
        nbb, nt = name_calls[0]
        # ---- R8 order
        g = guards_of(b, nbb)
        under_none = any(d.k == "discr" and contains_call(d, lambda n: n in emoticon_acc) and (pol == "otherwise" or pol == (0,)) for (d, pol, s) in g)
        if under_none and b.dominates(ebb, nbb):
            r8.ok("%s:order" % mode, "name look-up only on the None edge of the emoticon look-up")
        else:
            r8.violation("%s:order" % mode, "the name look-up is not subordinate to a failed emoticon look-up (emoticons whose word part is an emoji name lose their emoji)",
                         site_of(b, nbb))
        # … and nothing else decides whether a word is looked up as a name: a word the table lists must reach the look-up whatever its length or shape
        extra_n = [(d, pol) for (d, pol, s) in g
                   if not ((d.k == "call" and d.a[0].endswith(("get_ansi_encoding", "get_suggestion_include_english"))) or
                           (d.k == "discr" and contains_call(d, lambda n: n in emoticon_acc)) or
                           (d.k == "call" and d.a[0] in prog.fns and (prog.fns[d.a[0]].get("impl") or {}).get("self", "").startswith("config::Config")))]
        if extra_n:
            r8.undecidable("%s:name-always" % mode, "the name look-up is skipped unless %r is %s — the rule cannot show that this never keeps a word that is a name in the table "
                           "from being looked up" % (extra_n[0][0], extra_n[0][1]), site_of(b, nbb))
        else:
            r8.ok("%s:name-always" % mode, "every word whose emoticon look-up fails is looked up as a name (outside ANSI mode)")
        # ---- R2 emoticon arm
        arm_pushes = []
        for p in evs:
            gg = guards_of(b, p.outer_bb)
            in_arm = any(d.k == "discr" and contains_call(d, lambda n: n in emoticon_acc) and pol == (1,) for (d, pol, s) in gg)
            if in_arm:
                arm_pushes.append((p, gg))
        emoji_push = [(p, gg) for p, gg in arm_pushes if p.item is not None and contains_call(p.item, lambda n: n in emoticon_acc)]
        if len(emoji_push) != 1:
            r2.violation("%s:emoji" % mode, "the emoticon arm pushes the found emoji %d times" % len(emoji_push), site_of(b, ebb))
        else:
            p, gg = emoji_push[0]
            extra = [(d, pol) for (d, pol, s) in gg if not ((d.k == "call" and d.a[0].endswith("get_ansi_encoding")) or
                                                            (d.k == "discr" and contains_call(d, lambda n: n in emoticon_acc)))]
            val = peel_conv(p.item)
            payload = val.k == "field" and strip_refs(val.a[0]).k == "downcast"
            if extra:
                r2.violation("%s:emoji" % mode, "the emoji of an emoticon is pushed only under an extra condition %s" % (extra,), site_of(b, p.outer_bb))
            elif not payload:
                r2.violation("%s:emoji" % mode, "the pushed emoji is %r, not the look-up's result" % (val,), site_of(b, p.outer_bb))
            else:
                r2.ok("%s:emoji" % mode, "Some(emoji) ⇒ push(Rank::emoji(emoji)) unconditionally")
        if mode == "phonetic":
            lit = [(p, gg) for p, gg in arm_pushes if p.item is not None and peel_conv(p.item).k == "arg" and not p.closure]
            # the literal handed over as `(text != preceding).then(|| Rank::last_ranked(text.to_owned(), 1))` to `extend`: the candidate is built from
            # the captured typed text and exists only where the condition of `then` holds
            for p, gg in arm_pushes:
                if p.closure and p.kind == "extend" and p.item is not None:
                    cv_ = builders.creator_value(prog, p)
                    if cv_ is not None and cv_[0].k == "arg" and cv_[1].key == b.key:
                        lit.append((p, list(gg) + [(strip_refs(d_), pol_, s_) for (d_, pol_, s_) in builders.closure_run_guards(prog, p.closure)]))
            if len(lit) != 1:
                r2.violation("phonetic:literal", "the emoticon arm keeps the literal typed text %d times (expected once)" % len(lit), site_of(b, ebb))
            else:
                p, gg = lit[0]
                extra = []
                good_guard = False
                for (d, pol, s) in gg:
                    if (d.k == "call" and d.a[0].endswith("get_ansi_encoding")) or (d.k == "discr" and contains_call(d, lambda n: n in emoticon_acc)):
                        continue
                    if d.k == "call" and (d.a[0].endswith("::ne") or d.a[0].endswith("::eq")):
                        x, y = peel_conv(d.a[1][0]), peel_conv(d.a[1][1])
                        parts = [split_part(prog, b, z, acc, astuple) for z in (x, y)]
                        raws = [z for z in (x, y) if z.k == "arg"]
                        is_ne = d.a[0].endswith("::ne")
                        if raws and any(pp and pp[0] == "preceding" for pp in parts) and pol == is_ne:
                            good_guard = True
                            continue
                    extra.append((d, pol))
                if extra or not good_guard:
                    r2.violation("phonetic:literal", "the literal emoticon text is kept under %s; the only allowed exception is `text == captured preceding punctuation`"
                                 % (extra or "no guard",), site_of(b, p.outer_bb))
                else:
                    r2.ok("phonetic:literal", "literal kept unless it equals the captured preceding punctuation")
        # ---- R3 name arm
        ext = [p for p in evs if p.kind == "extend" and p.closure]
        arm_ext = []
        for p in ext:
            it = strip_refs(b.expr_operand(p.term["args"][1]))
            if contains_call(it, lambda n: n in name_acc):
                arm_ext.append((p, it))
        # the same arm written as a loop: for (entry, rank) in found.zip(1..) { push(emoji_ranked(format!(..), rank)) }
        loop_form = None
        if not arm_ext:
            cands = []
            for p in evs:
                if p.kind != "push" or p.item is None:
                    continue
                nx = contains_call(p.item, lambda n: n.endswith("Iterator>::next"))
                if nx is not None and contains_call(nx, lambda n: n in name_acc):
                    cands.append((p, nx))
            if len(cands) == 1:
                loop_form = cands[0]
        if loop_form is not None:
            p, nx = loop_form
            it = strip_refs(nx.a[1][0])
            if it.k == "call" and it.a[0].endswith("IntoIterator>::into_iter"):
                it = strip_refs(it.a[1][0])
            chain_names, payload_ok, start_ok = _zip_chain(it, name_acc)
            heads = b.loops()
            lp = [(h, tails) for h, tails in heads.items() if p.outer_bb in b.loop_body(h, tails)]
            key = "%s:chain" % mode
            every = False
            if len(lp) == 1:
                h, tails = lp[0]
                body = b.loop_body(h, tails)
                exits = [(x, y) for x in body for y in b.bsucc[x] if y not in body and b.blocks[y]["term"]["k"] != "unreachable"]
                one_exit = len(exits) == 1 and b.blocks[exits[0][0]]["term"]["k"] == "switch" and \
                    contains_call(strip_refs(b.expr_operand(b.blocks[exits[0][0]]["term"]["discr"])), lambda n: n.endswith("Iterator>::next")) is not None
                every = one_exit and all(b.dominates(p.outer_bb, tl) for tl in tails)
            if chain_names != ["zip"]:
                r3.violation(key, "the emoji iterator is %s; only zip(1..) keeps every entry in order (no filter/take/skip/rev)" % "·".join(chain_names),
                             site_of(b, p.outer_bb))
            elif not start_ok:
                r3.violation(key, "the ranks zipped to the entries do not start at 1", site_of(b, p.outer_bb))
            elif not payload_ok:
                r3.violation(key, "the zipped iterator is not the look-up's own result", site_of(b, p.outer_bb))
            elif not every:
                r3.violation(key, "the loop over the found entries does not push on every iteration (an entry can be skipped or the loop left early)", site_of(b, p.outer_bb))
            else:
                r3.ok(key, "for (entry, rank) in found.zip(1..) { push(..) } — one push per entry, single exit at the end of the table entries")
            arm_ext_members = [p]
            _check_wrap(r3, "%s:closure" % mode, prog, b, p, p.rank, lambda e: e, nx, nt, acc, astuple, site_of(b, p.outer_bb), None)
        elif len(arm_ext) != 1:
            r3.violation("%s:extend" % mode, "expected the name arm to extend the list once with the mapped table entries, found %d" % len(arm_ext), site_of(b, nbb))
        else:
            p, it = arm_ext[0]
            # chain: map(zip(payload, RangeFrom{1}), closure)
            x = it
            first_name = x.a[0].split("::")[-1] if x.k == "call" else None
            chain_names, payload_ok, start_ok = _zip_chain(strip_refs(x.a[1][0]) if first_name == "map" else x, name_acc)
            chain_names = ([first_name] if first_name == "map" else []) + chain_names
            key = "%s:chain" % mode
            if chain_names[:2] != ["map", "zip"] or len(chain_names) != 2:
                r3.violation(key, "the emoji iterator is %s; only zip(1..).map(..) keeps every entry in order (no filter/take/skip/rev)" % "·".join(chain_names),
                             site_of(b, p.outer_bb))
            elif not start_ok:
                r3.violation(key, "the ranks zipped to the entries do not start at 1", site_of(b, p.outer_bb))
            elif not payload_ok:
                r3.violation(key, "the zipped iterator is not the look-up's own result", site_of(b, p.outer_bb))
            else:
                r3.ok(key, "extend(found.zip(1..).map(closure))")
            ranks_ = getattr(p, "ranks", None) or [p.rank]
            uniq = []
            for r_ in ranks_:
                if repr(r_) not in [repr(u) for u in uniq]:
                    uniq.append(r_)
            for n_, r_ in enumerate(uniq):
                # every return path of the mapping closure must build the wrapped candidate
                _check_wrap(r3, "%s:closure" % mode + ("" if n_ == 0 else "#%d" % n_), prog, b, p, r_ if p.variant == "Emoji" else None,
                            lambda e: subst_upvars(prog, p.closure, e), None, nt, acc, astuple, common.fn_line(prog, p.closure), p.closure)
        # ---- R4
        for p in evs:
            if p.item is None:
                continue
            is_emoji_src = contains_call(p.item, lambda n: n in data_acc) or (p.closure and p in [q for q, _ in arm_ext]) or (loop_form is not None and p is loop_form[0])
            if is_emoji_src:
                key = "%s:%s#%d" % (mode, p.kind, p.outer_bb)
                if p.variant == "Emoji":
                    r4.ok("%s:%s" % (mode, "emoticon" if p.kind == "push" else "name"), "pushed as Emoji rank")
                else:
                    r4.violation("%s:%s" % (mode, "emoticon" if p.kind == "push" else "name"), "an emoji is pushed with rank class %s" % p.variant, site_of(b, p.outer_bb))
        # ---- R5 sort
        sorts = [(bb, t) for (bb, t) in b.calls() if "::sort" in callee_name(t)]
        for (bb, t) in sorts:
            n = callee_name(t)
            stable = "unstable" not in n
            if emoji_equal and not stable:
                r5.violation("%s:sort" % mode, "the comparator leaves Emoji×Emoji Equal but the list is sorted with %s — table order of a name's emoji is not kept"
                             % n.split("::")[-1], site_of(b, bb))
            else:
                r5.ok("%s:sort" % mode, "%s with Emoji×Emoji = %s" % (n.split("::")[-1], "Equal" if emoji_equal else "ordered"))
        if not sorts:
            r5.violation("%s:sort" % mode, "the builder does not sort the candidates", common.fn_line(prog, fk))
        # ---- R6 / R9
        shrink = [(bb, t) for (bb, t) in b.calls() if any(callee_name(t).endswith(s) for s in ("::truncate", "::retain", "::drain", "Vec::<T, A>::pop",
                  "Vec::<T, A>::remove", "::split_off", "::swap_remove")) and "Vec<suggestion::Rank>" in t["args"][0]["place"]["ty"]]
        if mode == "phonetic":
            if shrink:
                bb, t = shrink[0]
                r9.violation("phonetic:no-shrink", "the phonetic list is shrunk with %s after candidates were gathered (the last-ranked transliteration is the first to go)"
                             % callee_name(t).split("::")[-1], site_of(b, bb))
            else:
                r9.ok("phonetic:no-shrink", "no truncate/retain/drain/pop on the list in the phonetic builder")
        else:
            from engine.analyses import const_fold
            caps = [const_fold(b.expr_operand(t["args"][1])) for (bb, t) in shrink if callee_name(t).endswith("::truncate")
                    and const_fold(b.expr_operand(t["args"][1])) is not None]
            longest = max(len(v) for v in emo["bengali"].values()) if emo else None
            longest_names = [k for k, v in emo["bengali"].items() if len(v) == longest] if emo else []
            if not caps or longest is None:
                r6.undecidable("fixed:cap", "cap constant or Bengali table not found")
            else:
                # First-ranked typed word takes one slot
                room = max(caps) - 1
                r6.table("cap", max(caps))
                r6.table("longest_bengali_list", longest)
                for nm in sorted(k for k, v in emo["bengali"].items() if len(v) > room):
                    r6.violation("fixed:cap:%s" % "-".join("%04X" % ord(c_) for c_ in nm), "cap %d leaves %d slots after the typed word but the Bengali name %s lists %d emoji"
                                 % (max(caps), room, nm, len(emo["bengali"][nm])), site_of(b, shrink[0][0]))
                if all(len(v) <= room for v in emo["bengali"].values()):
                    r6.ok("fixed:cap", "cap %d ≥ 1 + longest list %d" % (max(caps), longest))
    # ---- R10 every name of the tables can be the word part of a typed text
    r10 = chk.rule("C18.R10", "every emoji name of the bundled tables survives the splitter: its word part is the name itself",
                   "typing any English emoji name (phonetic mode) or Bengali emoji name (fixed mode) offers its emoji — the name look-up gets the word part only")
    try:
        sp10 = c17.split_fn(prog)
        meta10 = {c for lit, w in common.splitter_sets(prog, sp10) for c in lit}
    except Exception as e:      # fail closed
        meta10 = None
        r10.undecidable("splitter", "cannot read the splitter's punctuation set: %s" % e)
    if meta10 is not None and emo:
        if not meta10 or any(c.isalnum() for c in meta10):
            r10.undecidable("splitter", "the splitter's punctuation set %r is empty or contains letters (C03.R4 / C17.R4 own that)" % "".join(sorted(meta10)))
        else:
            n_ok = 0
            for mode, tab in (("phonetic", "names"), ("fixed", "bengali")):
                for nm in sorted(emo[tab]):
                    if not nm:
                        continue
                    if nm[0] in meta10 or nm[-1] in meta10:
                        r10.violation("name:%s:%s" % (mode, "-".join("%04X" % ord(c_) for c_ in nm)),
                                      "the %s emoji name `%s` begins or ends with a character the splitter takes for punctuation: the name look-up receives `%s` "
                                      "and the emoji (%s) is never offered" % ("English" if tab == "names" else "Bengali", nm,
                                                                                 nm.strip("".join(meta10)), " ".join(emo[tab][nm][:3])), common.fn_line(prog, sp10))
                    else:
                        n_ok += 1
            r10.ok("names", "%d names of the two tables are their own word part (punctuation set of %d characters)" % (n_ok, len(meta10)))
    elif meta10 is not None:
        r10.undecidable("tables", "emoji tables of the pinned emojicon crate not found")
    r10.floor(1, "names")
    r1.floor(4, "2 modes × (emoticon arg, name arg)")
    r8.floor(4, "2 modes × (order, name-always)")
    r2.floor(3, "2 emoji pushes + phonetic literal")
    r3.floor(4, "2 modes × (chain, closure)")
    r4.floor(4, "2 modes × (emoticon, name)")
    r5.floor(2, "2 sorts")
    r6.floor(1, "fixed cap")
    r9.floor(1, "phonetic builder")


def _unstripped(e):
    """The word a joiner-stripping `replace(U+200C, "")` is applied to (or e itself)."""
    for x in e.walk():
        if x.k == "call" and x.a[0].endswith("::replace") and "str" in x.a[0] and len(x.a[1]) == 3:
            pat, rep = strip_refs(x.a[1][1]), strip_refs(x.a[1][2])
            if ((is_const(pat, "char") or is_const(pat, "str")) and const_val(pat) == "\u200c") and is_const(rep, "str") and const_val(rep) == "":
                return x.a[1][0]
    return e


def _zip_chain(x, name_acc):
    """(adaptor names outermost first, payload is the look-up's own Some payload, ranks start at 1) of an iterator expression."""
    chain_names = []
    payload_ok = start_ok = False
    while x.k == "call":
        n = x.a[0].split("::")[-1]
        chain_names.append(n)
        if n == "zip":
            other = strip_refs(x.a[1][1])
            if other.k == "agg" and "RangeFrom" in other.a[0] and is_const(strip_refs(other.a[1][0]), "int", 1):
                start_ok = True
            first = strip_refs(x.a[1][0])
            if first.k == "field" and strip_refs(first.a[0]).k == "downcast" and contains_call(first, lambda n_: n_ in name_acc):
                payload_ok = True
            # `look-up.into_iter().flatten()`: the found iterator's entries, or nothing — the same entries in the same order
            if first.k == "call" and first.a[0].endswith("::flatten") and first.a[1]:
                inner = strip_refs(first.a[1][0])
                if inner.k == "call" and inner.a[0].endswith("::into_iter") and inner.a[1]:
                    src = strip_refs(inner.a[1][0])
                    if src.k == "call" and src.a[0] in name_acc:
                        payload_ok = True
            break
        x = strip_refs(x.a[1][0])
    return chain_names, payload_ok, start_ok


def _is_pair_part(e, idx, nx):
    """e is component idx of the zipped pair: closure form = field idx of the closure's parameter; loop form = field idx of the Some payload of next()."""
    e = strip_refs(e)
    if e.k != "field" or str(e.a[1]) != str(idx):
        return False
    base = strip_refs(e.a[0])
    if nx is None:
        return base.k == "arg" and base.a[0] == 2
    if base.k == "field" and str(base.a[1]) == "0":
        d = strip_refs(base.a[0])
        return d.k == "downcast" and strip_refs(d.a[0]) == nx
    return False


def _check_wrap(r3, key, prog, b, p, rank_e, subst, nx, nt, acc, astuple, site, closure):
    """entry ↦ Emoji rank of (preceding ++ entry ++ trailing) with the zipped rank, on the builder's own split value."""
    rnk = strip_refs(rank_e) if rank_e is not None else None
    if p.variant != "Emoji" or rnk is None or rnk.k != "call":
        r3.violation(key, "the entries are not turned into Emoji ranks", site)
        return
    item = subst(rnk.a[1][0])
    rv = strip_refs(rnk.a[1][1]) if len(rnk.a[1]) > 1 else None
    fp = format_parts(None, item)
    if fp is None and closure is not None:
        # the same concatenation assembled in place inside the mapping closure: String::with_capacity(..) + push_str × 3
        it0 = strip_refs(rnk.a[1][0])
        cb_ = prog.body(closure)
        if it0.k == "call" and isinstance(it0.a[2], int) and it0.a[2] < len(cb_.blocks) and cb_.blocks[it0.a[2]]["term"]["k"] == "call":
            from engine.analyses import built_string_parts
            bp = built_string_parts(cb_, cb_.blocks[it0.a[2]]["term"]["dest"]["l"])
            if bp is not None:
                fp = [(k_, subst(v_) if k_ == "val" else v_) for (k_, v_) in bp]
    okr = rv is not None and _is_pair_part(rv, 1, nx)
    if fp is None or len(fp) != 3 or any(x[0] != "val" for x in fp):
        r3.violation(key, "the emoji candidate is not `preceding ++ emoji ++ trailing`: %r" % (fp,), site)
        return
    if not okr:
        r3.violation(key, "the emoji's rank is %r, not the zipped rank" % (rv,), site)
        return
    pre = split_part(prog, b, fp[0][1], acc, astuple)
    mid = peel_conv(fp[1][1])
    post = split_part(prog, b, fp[2][1], acc, astuple)
    midok = _is_pair_part(mid, 0, nx)
    # the split value must be the same variable the word candidates are wrapped with (the user variable of the builder)
    name_arg_part = split_part(prog, b, _unstripped(b.expr_operand(nt["args"][1])), acc, astuple)
    same_var = pre and post and name_arg_part and _same_split(pre[1], name_arg_part[1]) and _same_split(post[1], name_arg_part[1])
    if not (pre and post and pre[0] == "preceding" and post[0] == "trailing" and midok):
        r3.violation(key, "emoji candidates are wrapped as (%s, %r, %s), expected (preceding, entry, trailing) of the split value"
                     % (pre and pre[0], mid, post and post[0]), site)
    elif not _read_after_guard(prog, b, p, [fp[0][1], fp[2][1]], acc):
        r3.violation(key, "the wrapping parts used for emoji are read before the conversion / smart-quote step of the builder, "
                     "so emoji are wrapped differently from the word", site)
    elif not same_var:
        r3.violation(key, "emoji are wrapped with parts of %r / %r, not of the split value whose word was looked up (%r)"
                     % (pre[1], post[1], name_arg_part and name_arg_part[1]), site)
    elif _other_stage_value(prog, b, pre[1]) is not None:
        st = _other_stage_value(prog, b, pre[1])
        r3.violation(key, "emoji are wrapped with the parts of one split value while the word candidates are built by %s from another one (%r): the two are "
                     "converted / curled separately, so the emoji's punctuation differs from the word's" % (st[0].split("::")[-1], st[1]), site)
    else:
        r3.ok(key, "entry ↦ emoji_ranked(preceding ++ entry ++ trailing, zipped rank) on the builder's split value")


def _other_stage_value(prog, b, split_e):
    """A private stage of the builder (a local function handed a split value by reference) that receives a *different* split value than
    the one the emoji are wrapped with: (callee, E) or None."""
    for (bb, t) in b.calls():
        g = callee_name(t)
        if g not in prog.fns:
            continue
        for a in t["args"]:
            ty = (a.get("place") or {}).get("ty") or a.get("ty") or ""
            if c17.SPLIT_TY in ty and ty.lstrip().startswith("&"):
                e = strip_refs(b.expr_operand(a))
                if not _same_split(e, split_e):
                    return g, e
    return None


def _same_split(a, b):
    """Both expressions denote the same split variable (the builder's user variable, possibly re-assigned by the quoter)."""
    ra, fa = apath(a)
    rb, fb = apath(b)
    if ra == rb and fa == fb:
        return True
    # phi of split/quoter results on both sides: compare structurally
    return repr(ra) == repr(rb) and fa == fb


def _read_after_guard(prog, b, p, parts, acc):
    """The accessor reads that produce the wrapping parts happen after the builder's smart-quote option test
    (hence after conversion and curling)."""
    gsw = None
    for i in b.rblocks:
        t = b.blocks[i]["term"]
        if t["k"] == "switch":
            d = strip_refs(b.expr_operand(t["discr"]))
            if d.k == "call" and d.a[0].endswith("Config::get_smart_quote"):
                gsw = i
    if gsw is None:
        return False
    cc = closure_creation(prog, p.closure) if p.closure else None
    create_bb = cc[1] if cc else None
    for e in parts:
        for x in e.walk():
            if x.k == "call" and (x.a[0] in acc or x.a[0].endswith("::as_tuple")):
                bb = x.a[2]
                in_builder = bb < len(b.blocks) and b.blocks[bb]["term"] is x.t
                pos = bb if in_builder else create_bb
                if pos is None or not b.dominates(gsw, pos):
                    return False
    return True
