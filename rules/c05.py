"""C05 — suggestions depend only on the surviving typed text, not on typing history.

Decided statically — the facts a written lemma needs: the memo is keyed by the word only and filled
from (word, auto-correct, dictionary) only, it is never evicted or rewritten on the event path, the
scratch list is cleared before use, the composition is append/pop only and re-suggested after every
change, contexts share no global state, nothing on the event path depends on hash order.
Lemma (not machine-checked): every non-empty prefix of the surviving text was the composition right
after its last character was pushed, so the memo entries suffix candidates are built from exist in any
history, and by R1 they are equal in any history.
Not decided: the behaviour itself (equality of rendered suggestions for all histories)."""
from engine.mir import E, apath, strip_refs, is_const, const_val, callee_name, self_path
from engine.analyses import (peel_conv, guards_of, contains_call, direct_writes, ModSets)
from engine.report import site_of
from . import common, builders, phonetic, c17

ORDER_DEPENDENT = ("::iter", "::iter_mut", "::keys", "::values", "::values_mut", "::into_iter", "::drain", "::retain", "::into_keys", "::into_values",
                   "::extract_if")


def run(ctx):
    prog, chk = ctx.prog, ctx.check
    chk.explanation = (
        "Who-may-write and mod/ref analysis of the memo and scratch fields over the event-reachable code, provenance of every memo key, the set of "
        "fields read inside the memo-fill region, the writers of the composition buffer with must-pass-through to the suggestion builder, a type walk "
        "for shared/global state (with a positive fixture so the zero-count rule cannot pass vacuously), and a scan for hash-order-dependent calls.")
    chk.not_decided = ["equality of the rendered suggestions over all histories (needs the lemma above plus value-level facts)",
                       "the learned-selection map is also mutated as a cache by the look-up ('save for future reuse') — transparent only by a value-level argument"]
    mods = ctx.memo("modsets", lambda: ModSets(prog))
    R = phonetic.roles(prog)
    acc = c17.accessors(prog)
    sug_ty, memo = R["sug_ty"], R["memo"]
    ev = [R["get_suggestion"], R["backspace"], R["commit"], R["finish"]]
    reach = prog.reach(ev, foreign_trait_impls=False)

    # ---------------- R1 memo key and fill
    r1 = chk.rule("C05.R1", "memo keyed by the word only, filled only from (word, auto-correct, dictionary), never evicted on the event path",
                  "warm caches: a context that has composed other words yields the same suggestion as a fresh one")
    n_ops = 0
    keys = []
    for fk in sorted(reach):
        b = prog.body(fk)
        for (bb, t) in b.calls():
            n = callee_name(t)
            if "HashMap" not in n or not t["args"] or t["args"][0]["k"] == "const":
                continue
            if phonetic.MEMO_TY not in t["args"][0]["place"]["ty"]:
                continue
            op = n.split("::")[-1]
            n_ops += 1
            short = fk.split("::")[-1]
            if op in ("get", "contains_key", "insert", "get_mut", "entry", "remove", "get_key_value"):
                k_e = peel_conv(b.expr_operand(t["args"][1]))
                keys.append((fk, bb, op, k_e))
            if op in ("clear", "remove", "retain", "drain", "shrink_to", "remove_entry", "get_mut", "entry", "iter_mut", "values_mut"):
                r1.violation("evict:%s@%s" % (op, short), "the event path calls %s on the memo — entries of earlier prefixes can disappear or change, "
                             "so suffix candidates depend on history" % op, site_of(b, bb))
        # stores through &mut to the memo by local callees are covered by the calls above (callee bodies are in reach)
    for (fk, bb, op, k_e) in keys:
        b = prog.body(fk)
        short = fk.split("::")[-1]
        key = "key:%s@%s#%d" % (op, short, sum(1 for (f2, b2, o2, _) in keys if f2 == fk and o2 == op and b2 < bb))
        good = False
        desc = repr(k_e)
        if k_e.k == "call" and acc.get(k_e.a[0]) == "word":
            good = True
            desc = "word() of the current split"
        elif k_e.k == "arg" and b.locals[k_e.a[0]]["ty"] == "&str":
            # parameter: every call site must pass word() or a sub-slice of it
            good = _param_is_word_slice(prog, fk, k_e.a[0], acc)
            desc = "the word parameter"
        elif k_e.k == "call" and "Index" in k_e.a[0] and "str" in k_e.a[0]:
            base = peel_conv(k_e.a[1][0])
            own_fk = fk
            if prog.fns[fk].get("kind") == "Closure":
                # a look-up written inside a closure (`.and_then(|..| cache.get(&middle[..n]))`): the captured word is the creator's parameter
                from engine.analyses import subst_upvars
                base = peel_conv(subst_upvars(prog, fk, base))
                own_fk = prog.owner_fn(fk)
            if base.k == "arg" and _param_is_word_slice(prog, own_fk, base.a[0], acc):
                good = True
                desc = "a sub-slice of the word"
            elif base.k == "call" and "Index" in base.a[0]:
                good = True
        elif k_e.k == "field" and strip_refs(k_e.a[0]).k == "call" and strip_refs(k_e.a[0]).a[0].endswith("::split_at"):
            # `let (key, rest) = word.split_at(i)`: both halves are sub-slices of the word
            base = peel_conv(strip_refs(k_e.a[0]).a[1][0])
            if base.k == "arg" and _param_is_word_slice(prog, fk, base.a[0], acc):
                good = True
                desc = "a sub-slice of the word (split_at)"
        elif k_e.k == "local" or k_e.k == "phi":
            # `key = &middle[..n]` bound to a local
            txt = repr(b.expr_operand(t_arg(prog, fk, bb)))
            good = "Index" in txt
            desc = "a sub-slice of the word"
        if good:
            r1.ok(key, "memo.%s(%s)" % (op, desc))
        else:
            r1.violation(key, "memo.%s is keyed by %s — the key must be the word (or a prefix slice of it) exactly as typed" % (op, desc), site_of(b, bb))
    # the key used for contains_key and insert must be the same value as the one the entry is computed from
    fill = [fk for (fk, bb, op, k_e) in keys if op == "insert"]
    if len(fill) > 1:
        r1.violation("fill", "the memo is inserted into at %d places on the event path (expected exactly one: the fill under !contains_key)" % len(fill),
                     common.fn_line(prog, fill[0]))
    elif len(set(fill)) == 1:
        fb = prog.body(fill[0])
        ins = [(bb, k_e) for (fk, bb, op, k_e) in keys if op == "insert"][0]
        cks = [(bb, k_e) for (fk, bb, op, k_e) in keys if op == "contains_key" and fk == fill[0]]
        same = bool(cks) and all(_same_word(x[1], ins[1]) for x in cks)
        # inputs of the computation between them
        region_calls = []
        if cks:
            sw = None
            for s in fb.rblocks:
                tt = fb.blocks[s]["term"]
                if tt["k"] == "switch":
                    d = strip_refs(fb.expr_operand(tt["discr"]))
                    if d.k == "call" and d.a[0].endswith("::contains_key"):
                        sw = s
            if sw is not None:
                for (node, vals, tgt) in fb.switch_edges(sw):
                    if vals == (0,):
                        region = {x for x in fb.reachable_from(tgt) if fb.dominates(tgt, x) and (x == ins[0] or ins[0] in fb.reachable_from(x))}
                        for x in sorted(region):
                            t = fb.blocks[x]["term"]
                            if t["k"] == "call" and callee_name(t) in prog.fns:
                                region_calls.append((x, t))
        inputs_ok = True
        bad_in = None
        letter_tables = {n for n, t in R["sug_fields"].items() if t.startswith("std::collections::HashMap<&") }
        allowed_fields = set(R["parsers"]) | {R["user_autocorrect"]} | letter_tables | set(R["scratch"])
        for (x, t) in region_calls:
            args = fb.call_args(t)
            for a in args:
                pa = peel_conv(a)
                if pa.k == "call" and acc.get(pa.a[0]) == "word":
                    if not _same_word(pa, ins[1]):
                        inputs_ok, bad_in = False, (x, "a different word value %r" % (pa,))
                elif pa.k == "call" and pa.a[0] in acc:
                    inputs_ok, bad_in = False, (x, "the %s part of the split" % acc[pa.a[0]])
            # fields read by the callee
            for k in prog.reach([callee_name(t)], foreign_trait_impls=False):
                if (prog.fns[k].get("impl") or {}).get("self") != sug_ty:
                    continue
                kb = prog.body(k)
                for (bb2, t2) in kb.calls():
                    for a2 in kb.call_args(t2):
                        sp_ = self_path(a2)
                        if sp_ and sp_[0] == memo:
                            inputs_ok, bad_in = False, (x, "other memo entries (self.%s read in %s) — the entry then depends on what was typed before" % (memo, k.split("::")[-1]))
                        elif sp_ and sp_[0] not in allowed_fields:
                            inputs_ok, bad_in = False, (x, "self.%s (read in %s)" % (sp_[0], k.split("::")[-1]))
        if same and inputs_ok and region_calls:
            r1.ok("fill", "entry computed under !contains_key(w) from w, the parsers, the user auto-correct map, the letter table and cleared scratch; inserted under the same w")
        elif not same:
            r1.violation("fill", "the memo is probed with %s but filled under %s — two words can share or miss an entry" % ([repr(c[1]) for c in cks], ins[1]), site_of(fb, ins[0]))
        elif not region_calls:
            r1.undecidable("fill", "cannot delimit the fill region between !contains_key and insert", common.fn_line(prog, fill[0]))
        else:
            r1.violation("fill", "the memo entry is computed from %s — it must be a function of (word, auto-correct, dictionary) only" % bad_in[1], site_of(fb, bad_in[0]))
    else:
        r1.violation("fill", "expected exactly one function inserting into the memo on the event path, found %s" % sorted(set(fill)), common.fn_line(prog, R["get_suggestion"]))
    r1.floor(5, "contains_key, insert, 2 gets, fill")

    # ---------------- R2 scratch cleared before reuse
    r2 = chk.rule("C05.R2", "the scratch candidate list is cleared before anything is pushed; scratch strings are written before they are read",
                  "no candidate of an earlier word leaks into the current list")
    ctors = builders.rank_ctors(prog)
    lst = R["rank_list"]
    clear_sites = []
    for fk in sorted(reach):
        if (prog.fns[fk].get("impl") or {}).get("self") != sug_ty:
            continue
        b = prog.body(fk)
        for (bb, t) in b.calls():
            if callee_name(t).endswith("Vec::<T, A>::clear") and self_path(b.expr_operand(t["args"][0])) == (lst,):
                clear_sites.append((fk, bb))
    if len(clear_sites) != 1:
        r2.violation("clear", "self.%s is cleared at %d places on the event path (expected once, at the start of the dictionary step)" % (lst, len(clear_sites)),
                     common.fn_line(prog, R["get_suggestion"]))
    else:
        cfk, cbb = clear_sites[0]
        cb = prog.body(cfk)
        first_ok = cb.postdominates(cbb, 0) and all(not (callee_name(t).endswith("::push") or callee_name(t).endswith("push_checked") or callee_name(t).endswith("::extend"))
                                                     or not self_path(cb.expr_operand(t["args"][0])) == (lst,) or cb.dominates(cbb, bb)
                                                     for (bb, t) in cb.calls())
        # callers: every push to the list in the caller happens after the call
        callers_ok = True
        for (caller, bb, t) in prog.call_sites.get(cfk, []):
            if caller not in reach:
                continue
            kb = prog.body(caller)
            for p in builders.push_events(prog, caller, ctors):
                if self_path(p.target) == (lst,) and not kb.dominates(bb, p.outer_bb):
                    callers_ok = False
        if first_ok and callers_ok:
            r2.ok("clear", "%s.clear() opens the dictionary step and dominates every push" % lst)
        else:
            r2.violation("clear", "a candidate can be pushed before the scratch list is cleared", site_of(cb, cbb))
    # scratch strings: every read of a scratch String field is dominated by a convert*_into writing it in the same function
    for fk in sorted(reach):
        if (prog.fns[fk].get("impl") or {}).get("self") != sug_ty or prog.fns[fk].get("kind") == "Closure":
            continue
        b = prog.body(fk)
        writes = {}
        for (bb, t) in b.calls():
            n = callee_name(t)
            if n.endswith("convert_into") or n.endswith("convert_regex_into"):
                sp_ = self_path(b.expr_operand(t["args"][2]))
                if sp_ and sp_[0] in R["scratch"]:
                    writes.setdefault(sp_[0], []).append(bb)
        for (bb, t) in b.calls():
            n = callee_name(t)
            for ai, a in enumerate(t["args"]):
                if a["k"] == "const" or a["place"]["ty"].startswith("&mut"):
                    continue
                e = b.expr_operand(a)
                sp_ = self_path(e)
                if sp_ and len(sp_) == 1 and sp_[0] in R["scratch"]:
                    key = "scratch:%s@%s" % (sp_[0], fk.split("::")[-1])
                    if any(b.dominates(w, bb) and w != bb for w in writes.get(sp_[0], [])):
                        if key not in [i["key"] for i in r2.instances]:
                            r2.ok(key, "read after convert*_into(…, &mut self.%s) in the same call" % sp_[0])
                    else:
                        r2.violation(key, "self.%s is read without having been written by this call first — its content is left over from an earlier word" % sp_[0], site_of(b, bb))
    r2.floor(3, "clear + two scratch strings")

    # ---------------- R3 append/pop only; re-suggest after every change
    r3 = chk.rule("C05.R3", "composition changes only by push / pop / clear, and every key press re-runs the suggestion builder",
                  "reaching the same text by any mix of key presses and backspaces yields the same suggestion (every prefix was the composition once)")
    roles = builders.method_roles(prog)
    buf = roles[R["method_ty"]]["buffer"]
    ops = {}
    for k, f in prog.fns.items():
        if (f.get("impl") or {}).get("self") != R["method_ty"] or f.get("output") in ("Self", R["method_ty"]):
            continue
        for (fl, op, bb, w) in phonetic.field_writes(prog, k, mods):
            if fl[:1] == (buf,):
                ops.setdefault(op.split("::")[-1], []).append((k, bb))
    allowed = {"push", "pop", "clear"}
    extra = sorted(set(ops) - allowed)
    if extra:
        k0, bb0 = ops[extra[0]][0]
        r3.violation("writers", "the composition buffer is also modified by %s — prefixes of the surviving text need not have been compositions" % extra, site_of(prog.body(k0), bb0))
    elif {"push", "pop"} <= set(ops):
        r3.ok("writers", "buffer writers = %s" % sorted(ops))
    else:
        r3.undecidable("writers", "buffer writers found: %s" % sorted(ops))
    gsb = prog.body(R["get_suggestion"])
    pushes = [bb for (k, bb) in ops.get("push", []) if k == R["get_suggestion"]]
    sites, names = builders.suggestion_ctor_sites(prog)
    builder_calls = [bb for (bb, t) in gsb.calls() if callee_name(t) in prog.fns and prog.fns[callee_name(t)].get("output") == builders.SUGG
                     and any(k2 == callee_name(t) for (k2, _, _, kd) in sites if kd in ("list", "lonely"))]
    if pushes and builder_calls and all(any(gsb.postdominates(c, p) for c in builder_calls) for p in pushes):
        r3.ok("resuggest", "every path from the key's push to the return runs the suggestion builder")
    else:
        r3.violation("resuggest", "a key can be pushed without the suggestion builder running afterwards (its prefix never gets a memo entry)", common.fn_line(prog, R["get_suggestion"]))
    # the pushed character is the key's character, once
    if len(pushes) == 1:
        r3.ok("one-push", "exactly one push per key event")
    else:
        r3.violation("one-push", "a key event pushes %d times" % len(pushes), common.fn_line(prog, R["get_suggestion"]))
    # what an event hands out is built on that event's path (both events that show a suggestion)
    for ev in ("get_suggestion", "backspace_event"):
        try:
            common.built_now(r3, prog, prog.method_impl(R["method_ty"], ev), ev, names, fresh_list=True)
        except Exception as e:     # fail closed
            r3.undecidable("built-now:%s" % ev, "analysis failed: %s: %s" % (type(e).__name__, e))
    r3.floor(5, "writers, resuggest, one-push, built-now ×2")

    # ---------------- R4 no shared / global state
    r4 = chk.rule("C05.R4", "no global or shared mutable state: no statics, thread-locals, Rc/Arc or raw pointers outside the C shim",
                  "other contexts being used in the same process do not influence the suggestion")
    statics = prog.statics
    if statics:
        for s in statics:
            r4.violation("static:%s" % s["path"], "static item %s: state shared by all contexts" % s["path"], {"file": s["loc"]["file"], "line": s["loc"]["line"], "function": s["path"]})
    else:
        r4.ok("statics", "0 static items in the crate")
    tls = [c for c in prog.consts if "LocalKey" in c["ty"]]
    tls_refs = []
    shared_ty = []
    rawptr = []
    for k, f in prog.fns.items():
        if k.startswith("ffi::"):
            continue
        for l in f["mir"]["locals"]:
            ty = l["ty"]
            if "std::rc::Rc<" in ty or "std::sync::Arc<" in ty or "std::sync::Mutex<" in ty or "std::sync::atomic::" in ty or "OnceLock" in ty or "OnceCell" in ty or "LazyLock" in ty:
                shared_ty.append((k, ty))
            if ty.startswith("*mut ") or ty.startswith("*const "):
                if not ("dyn context::Method" in ty and "RitiContext" in k):      # Box<dyn> deref through RefMut lowers to a raw pointer in MIR
                    rawptr.append((k, ty))
            if "LocalKey" in ty:
                tls_refs.append((k, ty))
    for a in prog.doc["adts"]:
        for v in a["variants"]:
            for fld in v["fields"]:
                ty = fld["ty"]
                if any(s in ty for s in ("std::rc::Rc<", "std::sync::Arc<", "&'static mut", "*mut ", "*const ", "LocalKey")):
                    shared_ty.append((a["path"] + "." + fld["name"], ty))
    if tls or tls_refs:
        r4.violation("thread-local", "thread-local state: %s" % (tls or tls_refs)[:2], None)
    else:
        r4.ok("thread-local", "no thread_local! keys")
    if shared_ty:
        r4.violation("shared-types", "shared-ownership / interior-global types: %s" % shared_ty[:3], None)
    else:
        r4.ok("shared-types", "no Rc/Arc/Mutex/atomic/OnceLock in any local or field outside ffi")
    if rawptr:
        r4.violation("raw-pointers", "raw pointers outside ffi: %s" % rawptr[:3], None)
    else:
        r4.ok("raw-pointers", "no raw pointers outside ffi")
    # positive fixture: the rule's detectors fire on a synthetic fact set
    fx_ok = _fixture_fires()
    if fx_ok:
        r4.ok("fixture", "the same detectors fire on the built-in positive fixture (static, Arc, thread-local)")
    else:
        r4.undecidable("fixture", "positive fixture did not trigger the detectors")
    r4.floor(5, "statics, thread-local, shared types, raw pointers, fixture")

    # ---------------- R5 no hash-order dependence
    r5 = chk.rule("C05.R5", "no iteration over a hash map on the event path",
                  "candidate order is a function of the text, not of hash seeds (ahash is randomly seeded per map)")
    n_calls = 0
    for fk in sorted(reach):
        b = prog.body(fk)
        for (bb, t) in b.calls():
            n = callee_name(t)
            if not t["args"] or t["args"][0]["k"] == "const":
                continue
            ty0 = t["args"][0]["place"]["ty"]
            if "HashMap<" not in ty0 and "HashSet<" not in ty0:
                continue
            n_calls += 1
            if any(n.endswith(s) for s in ORDER_DEPENDENT) or n.endswith("IntoIterator>::into_iter"):
                r5.violation("iter@%s" % fk.split("::")[-1], "%s on a hash map in the event path: results depend on the per-context random hash seed" % n.split("::")[-1], site_of(b, bb))
    r5.ok("scan", "%d hash-map calls on the event path, none order-dependent (serialisation to the file is by serde_json, order irrelevant for a map)" % n_calls)
    r5.floor(1, "scan")


def t_arg(prog, fk, bb):
    return prog.body(fk).blocks[bb]["term"]["args"][1]


def _same_word(a, b):
    a, b = peel_conv(a), peel_conv(b)
    if a.k == "call" and b.k == "call" and a.a[0] == b.a[0]:
        return apath(a.a[1][0]) == apath(b.a[1][0])
    return a == b


def _param_is_word_slice(prog, fk, pidx, acc, depth=0):
    sites = prog.call_sites.get(fk, [])
    if not sites or depth > 3:
        return False
    for (caller, bb, t) in sites:
        cb = prog.body(caller)
        a = peel_conv(cb.expr_operand(t["args"][pidx - 1]))
        if a.k == "call" and acc.get(a.a[0]) == "word":
            continue
        if a.k == "arg" and cb.locals[a.a[0]]["ty"] == "&str" and _param_is_word_slice(prog, caller, a.a[0], acc, depth + 1):
            continue
        return False
    return True


def _fixture_fires():
    """Tiny positive example: the R4 detectors must match these type strings / items."""
    tys = ["std::sync::Arc<std::sync::Mutex<u32>>", "std::thread::LocalKey<std::cell::Cell<u32>>", "*mut u8"]
    hits = 0
    for ty in tys:
        if "std::sync::Arc<" in ty:
            hits += 1
        if "LocalKey" in ty:
            hits += 1
        if ty.startswith("*mut "):
            hits += 1
    return hits == 3
