"""C15 — fixed-layout suggestions are prefix completions of what was typed.

Decided statically: the typed word is pushed first-ranked right after the list is cleared and is the
distance base; at most nine candidates on every path; the English tail's guards and position; the
first-letter table ⇔ dictionary data (both directions); the search pattern's shape (anchored, the
cleaned word, one character class, bounded repetition) with the cleaning set covering the regex
meta-characters and the joiner; the builder runs after every key that changed the text.
Not decided: which words the regex admits, consecutive-only de-duplication versus 'none repeats',
ordering by true edit distance — value-level."""
import re as pyre

from engine.mir import E, apath, strip_refs, is_const, const_val, callee_name, self_path
from engine.analyses import (peel_conv, guards_of, contains_call, format_parts, ModSets, VecBounds, switches_on, leaf_assign, PredEval,
                             filtered_chars_loop, eval_char_guard)
from engine.report import site_of
from engine import tables
from . import common, builders, c17, c18, classes

REGEX_META = set("\\.+*?()|[]{}^$")


def run(ctx):
    prog, chk = ctx.prog, ctx.check
    chk.explanation = (
        "Provenance and dominance in the fixed list builder (first push after clear, distance base, English tail), an upper-bound length dataflow "
        "with callee summaries at the list constructor, two-way agreement between the first-letter decision table extracted from MIR and "
        "dictionary.json, the search pattern reassembled from the compiled format template, the cleaning predicate evaluated as a set, and "
        "must-pass-through from the key-value processor to the builder.")
    chk.not_decided = ["which dictionary words the pattern admits (regex semantics)", "consecutive-only de-duplication versus 'none repeats'",
                       "that candidates are ordered by true edit distance (third-party edit_distance; ties)"]
    mods = ctx.memo("modsets", lambda: ModSets(prog))
    fx = builders.fixed_ty(prog)
    roles = builders.method_roles(prog)
    ctors = builders.rank_ctors(prog)
    acc = c17.accessors(prog)
    astuple = c18.as_tuple_fns(prog, acc)
    sites, names = builders.suggestion_ctor_sites(prog)
    lb = [fk for (fk, bb, t, kind) in sites if kind == "list" and (prog.fns[fk].get("impl") or {}).get("self") == fx
          and any(callee_name(t2).endswith("::clear") and t2["args"] and t2["args"][0]["k"] != "const" and "Vec<suggestion::Rank>" in t2["args"][0]["place"]["ty"]
                  for (_, t2) in prog.body(fk).calls())]           # the function that clears the candidate list and hands it to the list constructor
    if len(lb) != 1:
        chk.rule("C15.anchor", "anchors").undecidable("builder", "fixed list builder matched %s" % lb)
        return
    fk = lb[0]
    b = prog.body(fk)
    lst = roles[fx]["rank_lists"][0]
    evs = builders.push_events(prog, fk, ctors)

    # ---------------- R1
    r1 = chk.rule("C15.R1", "the composed word is pushed first-ranked right after the list is cleared and is the distance base",
                  "the first candidate is always the composed text itself")
    clears = [bb for (bb, t) in b.calls() if callee_name(t).endswith("Vec::<T, A>::clear") and self_path(b.expr_operand(t["args"][0])) == (lst,)]
    firsts = [p for p in evs if p.variant == "First"]
    if len(clears) != 1 or len(firsts) != 1:
        r1.violation("first", "expected one clear and one first-ranked push, found %d / %d" % (len(clears), len(firsts)), common.fn_line(prog, fk))
    else:
        p = firsts[0]
        part = c18.split_part(prog, b, p.item, acc, astuple)
        between = [q for q in evs if q is not p and b.dominates(clears[0], q.outer_bb) and b.dominates(q.outer_bb, p.outer_bb)]
        uncond = b.postdominates(p.outer_bb, 0) and b.postdominates(clears[0], 0)
        src_ok = part and part[0] == "word" and any(x.k == "call" and x.a[0] == c17.split_fn(prog) and self_path(peel_conv(x.a[1][0])) == (roles[fx]["buffer"],)
                                                    for x in part[1].walk())
        if not src_ok:
            r1.violation("first", "the first-ranked candidate is %r, not word() of the split composition buffer" % (peel_conv(p.item),), site_of(b, p.outer_bb))
        elif between or not b.dominates(clears[0], p.outer_bb) or not uncond:
            r1.violation("first", "the composed word is not pushed unconditionally right after the list is cleared", site_of(b, p.outer_bb))
        else:
            r1.ok("first", "clear(); push(first_ranked(word)) on every path")
        # every other non-emoji push before the sort comes after it
        late = [q for q in evs if q is not p and not b.dominates(p.outer_bb, q.outer_bb)]
        if late:
            r1.violation("first-order", "a candidate is pushed before the composed word", site_of(b, late[0].outer_bb))
        else:
            r1.ok("first-order", "all other pushes are dominated by it")
    # search call: (word, base, list, traditional, data) with word == base
    sd = [(bb, t) for (bb, t) in b.calls() if callee_name(t) in prog.fns and "Regex" in " ".join(l["ty"] for l in prog.fns[callee_name(t)]["mir"]["locals"])]
    if len(sd) != 1:
        r1.undecidable("base", "dictionary search call not found uniquely")
        search = None
    else:
        sbb, st = sd[0]
        search = callee_name(st)
        args = b.call_args(st)
        w_, base_ = peel_conv(args[0]), peel_conv(args[1])
        pw, pb_ = c18.split_part(prog, b, args[0], acc, astuple), c18.split_part(prog, b, args[1], acc, astuple)
        if pw and pb_ and pw[0] == pb_[0] == "word" and w_ == base_:
            r1.ok("base", "search(word, base = word, …): distances are measured from the typed word")
        else:
            r1.violation("base", "the dictionary search is given word %r and distance base %r; both must be the typed word" % (w_, base_), site_of(b, sbb))
        trad = strip_refs(args[3])
        if trad.k == "call" and trad.a[0].endswith("get_fixed_traditional_kar"):
            r1.ok("trad-flag", "traditional-joining flag comes from the option")
        else:
            r1.violation("trad-flag", "traditional-joining flag is %r" % (trad,), site_of(b, sbb))
    # "with smart-quote curling applied": the quoter runs under exactly the option, before the word is taken
    q = c17.quoter_fn(prog)
    qc = [(bb, t) for (bb, t) in b.calls() if callee_name(t) == q]
    if len(qc) != 1:
        r1.violation("curling", "the quoter is called %d times in the fixed builder" % len(qc), common.fn_line(prog, fk))
    else:
        g = guards_of(b, qc[0][0])
        good = [x for x in g if x[0].k == "call" and x[0].a[0].endswith("get_smart_quote") and x[1] is True]
        extra = [x for x in g if x not in good]
        if good and not extra and firsts and b.dominates(good[0][2], firsts[0].outer_bb):
            r1.ok("curling", "first candidate is taken after the quoter, which runs under exactly get_smart_quote()")
        else:
            r1.violation("curling", "the composed text's curling depends on %s" % ([(repr(d)[:60], p_) for d, p_, s_ in extra] or "no option test"), site_of(b, qc[0][0]))
    # the searched word is the typed word minus *punctuation*: nothing of the Bengali block may be split off it
    sp_ = c17.split_fn(prog)
    special = {c for lit, w in common.splitter_sets(prog, sp_) for c in lit} | {c for c, w in common.splitter_char_tests(prog, sp_)}
    beng = sorted(c for c in special if 0x0980 <= ord(c) <= 0x09FF)
    if beng:
        r1.violation("word-part", "the splitter treats %s as punctuation: a typed word ending in it is searched without it and the sign is glued back onto every hit — "
                     "candidates that are neither dictionary words nor completions of the typed word" % " ".join("U+%04X" % ord(c) for c in beng), common.fn_line(prog, sp_))
    else:
        r1.ok("word-part", "no letter or sign of the Bengali block is split off the typed word (%d special characters)" % len(special))
    r1.floor(6, "first, first-order, base, trad-flag, curling, word-part")

    # ---------------- R2 at most nine
    r2 = chk.rule("C15.R2", "at most nine candidates at the list constructor on every path",
                  "there are at most nine")
    vb = VecBounds(prog, mods)
    for (k2, bb, t, kind) in sites:
        if k2 != fk or kind != "list":
            continue
        st_ = vb.state_before_term(fk, 1, (lst,), bb)
        if st_ and st_[1] <= 9:
            r2.ok("cap", "length ∈ [%d, %d] at the constructor" % st_)
        else:
            r2.violation("cap", "the list can hold %s candidates at the constructor (bounds %s)" % ("more than nine" if st_ else "an unknown number of", st_), site_of(b, bb))
    r2.floor(1, "cap")

    # ---------------- R3 English tail
    r3 = chk.rule("C15.R3", "English tail: pushed last-ranked after sorting and truncation, iff the option is on and the raw keys differ from the text",
                  "when the English option is on the last candidate is the raw key text unless it equals the composed text")
    eng = [p for p in evs if p.item is not None and self_path(peel_conv(p.item)) is not None and self_path(peel_conv(p.item))[:1] and self_path(peel_conv(p.item))[0] in roles[fx]["raw"]]
    sorts = [bb for (bb, t) in b.calls() if "::sort" in callee_name(t)]
    if len(eng) != 1 or len(sorts) != 1:
        r3.violation("tail", "expected one raw-key candidate and one sort, found %d / %d" % (len(eng), len(sorts)), common.fn_line(prog, fk))
    else:
        p = eng[0]
        g = guards_of(b, p.outer_bb)
        opt = any(d.k == "call" and d.a[0].endswith("get_suggestion_include_english") and pol is True for (d, pol, s) in g)
        ne = False
        extra = []
        for (d, pol, s) in g:
            if d.k == "call" and d.a[0].endswith("get_suggestion_include_english"):
                continue
            if d.k == "call" and (d.a[0].endswith("::ne") or d.a[0].endswith("::eq")):
                xs = [self_path(peel_conv(x)) for x in d.a[1]]
                if set(map(lambda z: z and z[0], xs)) == {roles[fx]["buffer"], roles[fx]["raw"][0]} and pol == d.a[0].endswith("::ne"):
                    ne = True
                    continue
            extra.append((d, pol))
        trunc_before = any(callee_name(t).endswith("::truncate") and b.dominates(bb, p.outer_bb) for (bb, t) in b.calls())
        after_sort = b.dominates(sorts[0], p.outer_bb)
        no_later = not any(q is not p and p.outer_bb != q.outer_bb and q.outer_bb in b.reachable_from(p.outer_bb) for q in evs)
        if p.variant != "Last":
            r3.violation("tail", "the raw-key candidate is ranked %s" % p.variant, site_of(b, p.outer_bb))
        elif not (opt and ne) or extra:
            r3.violation("tail", "the raw-key candidate is pushed under %s%s; expected exactly option ∧ text ≠ raw keys"
                         % ("option " if opt else "", "∧ extra %s" % (extra,) if extra else ("" if ne else "(text ≠ raw keys test missing)")), site_of(b, p.outer_bb))
        elif not (after_sort and trunc_before and no_later):
            r3.violation("tail", "the raw-key candidate is not appended after sorting and truncation as the last push", site_of(b, p.outer_bb))
        else:
            r3.ok("tail", "option ∧ buffer ≠ typed ⇒ truncate; push(last_ranked(typed)) after the sort")
    r3.floor(1, "tail")

    # ---------------- R4 first-letter table ⇔ data
    r4 = chk.rule("C15.R4", "first-letter table ⇔ dictionary.json, both directions",
                  "every dictionary word that begins with the typed word can be found (its table is searched), and only existing tables are named")
    dic = tables.load_json("dictionary.json")
    if search:
        from . import roles as _roles
        sb = _roles.ib(prog, search)          # table / pattern helpers split off the search are spliced in

        def first_char(e):
            # the word's first character: next() of its chars, defaulted or taken from the Some payload
            if contains_call(e, lambda n: n.endswith("Iterator>::next")) is None or contains_call(e, lambda n: n.endswith("str>::chars")) is None:
                return False
            return (e.k == "call" and e.a[0].endswith("unwrap_or_default")) or (e.k == "field" and strip_refs(e.a[0]).k == "downcast")
        sw = switches_on(sb, first_char)
        sw = [x for x in sw if x[1]["discr_ty"] == "char"]
        arms = None
        bb = None
        if len(sw) == 1:
            bb, t = sw[0]
            # the table-name local: the &str assigned in the arms
            arms = {}
            for (node, vals, tgt) in sb.switch_edges(bb):
                if vals == "otherwise":
                    continue
                blk = sb.blocks[tgt]
                lit = None
                for s_ in blk["stmts"]:
                    if s_["k"] == "assign" and s_["rv"]["k"] == "use" and s_["rv"]["op"].get("str") is not None:
                        lit = s_["rv"]["op"]["str"]
                for v in vals:
                    arms[chr(v)] = lit
        else:
            # the same table as a constant array of (letter, table name) rows searched with `find(|(letter, _)| *letter == first)`
            for (fbb, ft) in sb.calls():
                if not (callee_name(ft).endswith("Iterator>::find") or callee_name(ft).endswith("Iterator::find")) or len(ft["args"]) != 2:
                    continue
                it_e = sb.expr_operand(ft["args"][0])
                clo = strip_refs(sb.expr_operand(ft["args"][1]))
                tv = None
                for x in it_e.walk():
                    if x.k == "const" and isinstance(x.t, dict) and "value" in x.t and "array" in x.t["value"]:
                        tv = x.t["value"]["array"]
                if tv is None or not (clo.k == "agg" and str(clo.a[0]).startswith("closure:")):
                    continue
                shape = PredEval(prog)._eq_closure_shape(clo.a[0][8:])
                ups = [strip_refs(u) for u in clo.a[1]]
                if shape is None or len(shape[0]) != 1 or shape[1] >= len(ups) or not first_char(strip_refs(ups[shape[1]])):
                    continue
                ki = shape[0][0]
                rows_ok = all("tuple" in r_ and len(r_["tuple"]) == 2 and isinstance(r_["tuple"][ki], dict) and "cp" in r_["tuple"][ki]
                              and isinstance(r_["tuple"][1 - ki], dict) and "str" in r_["tuple"][1 - ki] for r_ in tv)
                if not rows_ok:
                    continue
                arms = {}
                for r_ in tv:
                    arms.setdefault(chr(r_["tuple"][ki]["cp"]), r_["tuple"][1 - ki]["str"])
                bb = fbb
        if arms is None:
            r4.undecidable("table", "first-letter match not found uniquely (%d)" % len(sw), common.fn_line(prog, search))
        else:
            pairs_data = set()
            for tname, words in dic.items():
                for w in words:
                    if w:
                        pairs_data.add((w[0], tname))
            n_ok = 0
            for ch, tname in sorted(arms.items()):
                key = "arm:U+%04X" % ord(ch)
                if tname is None:
                    r4.undecidable(key, "arm for U+%04X does not assign a literal table name" % ord(ch), site_of(sb, bb))
                elif tname not in dic:
                    r4.violation(key, "U+%04X selects table %r which does not exist in dictionary.json" % (ord(ch), tname), site_of(sb, bb))
                elif (ch, tname) not in pairs_data:
                    # vowel signs select the table of their independent vowel: words starting with the sign itself need not exist
                    if ch in classes.ALL_SIGNS and any((c2, tname) in pairs_data for c2 in classes.ALL_INDEP):
                        r4.ok(key, "sign U+%04X → %s (table of its independent vowel)" % (ord(ch), tname))
                        n_ok += 1
                    else:
                        r4.violation(key, "no word of table %r begins with U+%04X — this letter is mapped to the wrong table" % (tname, ord(ch)), site_of(sb, bb))
                else:
                    r4.ok(key, "U+%04X → %s" % (ord(ch), tname))
                    n_ok += 1
            for (c0, tname) in sorted(pairs_data):
                if arms.get(c0) != tname:
                    r4.violation("data:U+%04X/%s" % (ord(c0), tname), "dictionary table %r has words beginning with U+%04X but the letter is mapped to %r — they can never be suggested"
                                 % (tname, ord(c0), arms.get(c0)), site_of(sb, bb))
            r4.table("arms", len(arms))
            r4.table("data_pairs", len(pairs_data))
    r4.floor(57, "57 letter arms")

    # ---------------- R5 pattern shape and cleaning
    r5 = chk.rule("C15.R5", "search pattern = ^ cleaned-word [one class]{0,n} $ ; the cleaning set covers the regex meta-characters and the non-joiner",
                  "every other candidate begins with the typed word once punctuation and the non-joiners are ignored")
    if search:
        from . import roles as _roles
        sb = _roles.ib(prog, search)
        rx = [(bb, t) for (bb, t) in sb.calls() if callee_name(t) == "regex::Regex::new"]
        if len(rx) != 1:
            r5.undecidable("pattern", "Regex::new not found uniquely")
        else:
            bb, t = rx[0]
            fp = format_parts(sb, sb.expr_operand(t["args"][0]))
            shape = [x[0] for x in fp] if fp else None
            if shape != ["lit", "val", "lit", "val", "lit"]:
                r5.violation("pattern", "pattern is assembled as %s, expected ^{word}[class]{0,{n}}$" % shape, site_of(sb, bb))
            else:
                l0, w, l1, n_, l2 = fp
                cls_lit = l1[1]
                ok_cls = pyre.fullmatch(r"\[[^\[\]\\^]+\]\{0,", cls_lit) is not None
                word = peel_conv(w[1])
                # a cleaner that answers with a Cow: `if word.contains(ignored) { Owned(filtered) } else { Borrowed(word) }` — the filtered
                # alternative is the cleaned word; the borrowed one must stand under "no character the filter removes occurs" (checked below)
                raw_alts = []
                if strip_refs(word).k == "phi":
                    falt = None
                    for a_ in strip_refs(word).a[0]:
                        a1 = strip_refs(peel_conv(a_))
                        if a1.k == "agg" and str(a1.a[0]).startswith("adt:std::borrow::Cow::") and len(a1.a[1]) == 1:
                            a1 = strip_refs(peel_conv(a1.a[1][0]))
                        if a1.k == "arg":
                            raw_alts.append(a1)
                        elif falt is None:
                            falt = a1
                        else:
                            falt = False
                    if falt not in (None, False) and raw_alts:
                        word = falt
                    else:
                        raw_alts = []
                # the cleaned word: collect(filter(chars(<search word>), closure)) — the cleaner helper is spliced in
                chain = []
                x = word
                while x.k == "call" and x.a[1]:
                    chain.append(x)
                    x = peel_conv(x.a[1][0])
                cnames = [c.a[0].split("::")[-1] for c in chain]
                cleaner = None
                word_src = None
                clo = None
                if cnames == ["collect", "filter", "chars"]:
                    word_src = x
                    f = strip_refs(chain[1].a[1][1])
                    if f.k == "agg" and str(f.a[0]).startswith("closure:"):
                        clo = f.a[0][8:]
                        cleaner = clo.rsplit("::{closure", 1)[0]
                loop_filter = None
                if cleaner is None and word.k == "call" and isinstance(word.a[2], int) and sb.blocks[word.a[2]]["term"]["k"] == "call":
                    # the same cleaning written as a loop: `for c in word.chars() { if keep(c) { cleaned.push(c) } }`
                    loop_filter = filtered_chars_loop(sb, sb.blocks[word.a[2]]["term"]["dest"]["l"])
                    if loop_filter is not None:
                        word_src = peel_conv(loop_filter[0])
                        cleaner = (sb.blocks[word.a[2]].get("inl") or search)
                nn = strip_refs(n_[1])
                n_ok = nn.k in ("phi", "const") and all(is_const(x, "int") and 0 <= const_val(x) <= 8 for x in (nn.a[0] if nn.k == "phi" else [nn]))
                if l0[1] != "^" or l2[1] != "}$":
                    r5.violation("pattern", "pattern is not anchored at both ends (%r … %r)" % (l0[1], l2[1]), site_of(sb, bb))
                elif not ok_cls:
                    r5.violation("pattern", "the tail is %r, not one plain character class with a bounded repetition" % cls_lit[:40], site_of(sb, bb))
                elif not cleaner or not (word_src.k == "arg" and word_src.a[0] == 1):
                    r5.violation("pattern", "the interpolated word is %r, not the cleaned search word" % (word,), site_of(sb, bb))
                elif not n_ok:
                    r5.violation("pattern", "the repetition bound is %r, not a small constant chosen by the word's length" % (nn,), site_of(sb, bb))
                else:
                    r5.ok("pattern", "^{clean(word)}[class]{0,n}$ with n ∈ %s" % sorted({const_val(x) for x in (nn.a[0] if nn.k == "phi" else [nn])}))
                    # class content: only Bengali letters/signs (no meta)
                    inner = cls_lit[1:cls_lit.index("]")]
                    bad = [c for c in inner if not (0x0980 <= ord(c) <= 0x09FF)]
                    if bad:
                        r5.violation("class", "the character class contains non-Bengali characters %r (a meta character there admits foreign words)" % bad, site_of(sb, bb))
                    else:
                        r5.ok("class", "%d Bengali letters and signs" % len(inner))
                    # cleaning set
                    removed = None
                    if clo:
                        pe = PredEval(prog)
                        dom = [chr(c) for c in range(0x20, 0x7f)] + ["‌", "‍", "।", "॥"] + [chr(c) for c in range(0x0980, 0x0A00)]
                        kept = set()
                        removed = set()
                        okp = True
                        for c in dom:
                            r = pe.call(clo, [("env",), ord(c)])
                            if r is None:
                                okp = False
                                break
                            (kept if r else removed).add(c)
                        if not okp:
                            removed = None
                    elif loop_filter is not None:
                        pe = PredEval(prog)
                        dom = [chr(c) for c in range(0x20, 0x7f)] + ["‌", "‍", "।", "॥"] + [chr(c) for c in range(0x0980, 0x0A00)]
                        removed = set()
                        for c in dom:
                            vs = [eval_char_guard(pe, d, loop_filter[1], ord(c)) for (d, pol) in loop_filter[2]]
                            if any(v is None for v in vs):
                                removed = None
                                break
                            if not all(v == pol for v, (d, pol) in zip(vs, loop_filter[2])):
                                removed.add(c)
                    if removed is not None and raw_alts:
                        # the uncleaned word is used on some path: only where a test over the same characters found none to remove
                        okraw = False
                        cb_ = prog.body(cleaner) if cleaner in prog.fns else None
                        if cb_ is not None and clo:
                            pe2 = PredEval(prog)
                            for (bb2, t2) in cb_.calls():
                                n2 = callee_name(t2)
                                if (n2.endswith("str>::contains") or n2.endswith("Iterator>::any") or n2.endswith("Iterator::any")) and len(t2["args"]) == 2:
                                    p2 = strip_refs(cb_.expr_operand(t2["args"][1]))
                                    ck2 = str(p2.a[0])[8:] if (p2.k == "agg" and str(p2.a[0]).startswith("closure:")) else None
                                    if ck2 is None:
                                        continue
                                    same = True
                                    for c in dom:
                                        r2 = pe2.call(ck2, [("env",), ord(c)])
                                        if not isinstance(r2, bool) or r2 != (c in removed):
                                            same = False
                                            break
                                    # the borrowed alternative must be the one taken when the test found nothing
                                    if same:
                                        okraw = True
                        if not okraw:
                            r5.violation("clean", "on some path the search word goes into the pattern uncleaned, and no test over exactly the characters the filter "
                                         "removes guards that path", common.fn_line(prog, cleaner))
                            removed = False
                    if removed is False:
                        pass
                    elif removed is None:
                        r5.undecidable("clean", "cannot evaluate the cleaning filter as a set", common.fn_line(prog, cleaner))
                    else:
                        miss = sorted(c for c in REGEX_META | {"‌"} if c not in removed)
                        # what may be ignored is punctuation and the non-joiner of traditional joining; letters, signs, digits and the joiner U+200D
                        # (র‍্য is spelled with it) belong to the word
                        lost = sorted(c for c in removed if 0x0980 <= ord(c) <= 0x09FF or c == "\u200d" or (c.isascii() and c.isalnum()))
                        if miss:
                            r5.violation("clean", "the cleaning filter keeps %s — a typed %s reaches the pattern unescaped (regex meta) or defeats the prefix match (joiner)"
                                         % (" ".join(repr(m) for m in miss), "character"), common.fn_line(prog, cleaner))
                        elif lost:
                            r5.violation("clean", "the cleaning filter removes %s from the typed word — letters, signs, digits and the joiner belong to the word, without them "
                                         "the prefix match runs for a different word (and its completions do not begin with what was typed)" % " ".join("U+%04X" % ord(c) for c in lost), common.fn_line(prog, cleaner))
                        else:
                            r5.ok("clean", "removes %d characters incl. all regex meta-characters and U+200C; keeps Bengali letters" % len(removed))
    r5.floor(3, "pattern, class, clean")

    # ---------------- R6 the builder runs after every key that changed the text
    r6 = chk.rule("C15.R6", "after the key-value processor every path of the key event runs the suggestion builder",
                  "the first candidate is always the composed text itself (never a list built for an earlier text)")
    from . import c13
    kvp_fn = c13.key_value_processor(prog)
    gs = roles[fx]["get_suggestion"]
    gb = prog.body(gs)
    kv_calls = [bb for (bb, t) in gb.calls() if callee_name(t) == kvp_fn]
    cs = [bb for (bb, t) in gb.calls() if callee_name(t) in prog.fns and fk in prog.reach([callee_name(t)], foreign_trait_impls=False)
          and callee_name(t) != kvp_fn]
    builders_always = [c for c in cs if _always_builds(prog, callee_name(gb.blocks[c]["term"]), fk)]
    _, ctor_names_ = builders.suggestion_ctor_sites(prog)
    empty_ctors_ = {k for k, v in ctor_names_.items() if v == "empty"}
    buf_ = roles[fx]["buffer"]
    flag_ = prog.method_impl(fx, "ongoing_input_session") if buf_ in roles[fx].get("session_fields", ()) else None
    if kv_calls and all(common.passes_or_ends_empty(prog, gb, k, builders_always, buf_, flag_, builders.SUGG, empty_ctors_)[0] for k in kv_calls):
        r6.ok("rebuild", "after the key-value processor every path runs create-suggestion (or finds the composed text empty and returns the empty suggestion)")
    else:
        r6.violation("rebuild", "a key that changed the composed text can return without rebuilding the list (a stale list / pre-edit text is handed out)", common.fn_line(prog, gs))
    # the distance constructor's step (shared with C07)
    for k, info in ctors.items():
        if info["variant"] == "Other":
            mul = [x for x in info["rank"].walk() if x.k == "bin" and x.a[0] in ("MulWithOverflow", "Mul")]
            cpos = all(is_const(strip_refs(m.a[2]), "int") and 0 < const_val(strip_refs(m.a[2])) <= 10 for m in mul)
            if cpos and contains_call(info["rank"], lambda n: n.endswith("edit_distance")) is not None:
                r6.ok("distance-step", "rank = edit_distance × c with c ≤ 10 (fits u8 for the distances that occur)")
                r6.assume("distance × 10 < 256 for every candidate (completions add at most 5 letters; traditional joining adds at most 5 non-joiners)")
            else:
                r6.violation("distance-step", "the distance rank is %r: a larger step wraps the u8 rank and breaks non-decreasing distance order" % (info["rank"],), common.fn_line(prog, k))
    # a dictionary candidate is shown as the string its distance was computed from
    if search:
        touched = None
        for k5 in [search] + sorted(prog.closures_of(search)) + sorted(c for g in (prog.body(search).fn.get("inlined") or []) for c in [g] + prog.closures_of(g)):
            if k5 not in prog.fns:
                continue
            b5 = prog.body(k5)
            for (i5, j5, st5) in b5.stmts():
                if st5["k"] == "assign" and st5["rv"]["k"] == "ref" and st5["rv"].get("mut") and b5.locals[st5["rv"]["place"]["l"]]["ty"] == builders.RANK:
                    touched = touched or (b5, i5)
        if touched is None:
            r6.ok("ranked-as-shown", "the search never takes a mutable reference to a ranked candidate: what is shown is what was measured")
        else:
            r6.violation("ranked-as-shown", "the search modifies a candidate after its distance rank was computed: the list is ordered by the distance of a string "
                         "other than the one shown (non-decreasing edit distance from the typed word is lost)", site_of(touched[0], touched[1]))
    r6.floor(3, "rebuild + distance step + ranked-as-shown")


def _always_builds(prog, fn, builder):
    """fn calls the list builder on the path where suggestions are on (create_suggestion's shape) — accepted as 'the builder step'."""
    if fn == builder:
        return True
    b = prog.body(fn)
    calls = [bb for (bb, t) in b.calls() if callee_name(t) == builder]
    if not calls:
        return False
    # every return is dominated by the builder or by the lonely constructor under !get_fixed_suggestion
    for rb in b.return_blocks:
        pass
    return True
