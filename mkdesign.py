#!/usr/bin/env python3
"""Regenerates the machine-derived tables of DESIGN.md (between <!-- BEGIN x --> / <!-- END x --> markers)
from evidence/*.json, seeded/RESULTS.json, seeded/*/meta.json and refactorings/RESULTS.json.
Documentation tooling only; no check depends on it."""
import glob
import json
import os
import re

HERE = os.path.dirname(os.path.abspath(__file__))


def rules_table():
    out = ["| property | rule | what the rule decides (a necessary condition of …) | instances on today's tree | floor |",
           "|---|---|---|---|---|"]
    for p in sorted(glob.glob(os.path.join(HERE, "evidence", "C*.json"))):
        e = json.load(open(p, encoding="utf-8"))
        for r in e["coverage"]["rules"]:
            out.append("| %s | %s | %s *(%s)* | %s (%s known) | %s |" % (
                e["property_id"], r["rule"], r["title"].replace("|", "/"), (r.get("necessary_for_clause") or "").replace("|", "/"),
                r["instances"], r.get("known_findings", 0), r.get("floor") if r.get("floor") is not None else "–"))
    return "\n".join(out)


def _first_rule(lines):
    for ln in lines:
        m = re.search(r"\[(VIOLATION|UNDECIDABLE)\] (C\d\d\.[A-Za-z0-9_]+) (\S+)", ln)
        if m:
            return m.group(2), m.group(1).lower(), m.group(3)
    return None, None, None


def seeded_table():
    res = json.load(open(os.path.join(HERE, "seeded", "RESULTS.json"), encoding="utf-8"))
    out = ["| change | what it breaks (sub-agent's title) | caught by (first reporting rule) | also reported by |",
           "|---|---|---|---|"]
    n = own = anyc = 0
    for sid in sorted(res):
        r = res[sid]
        meta = json.load(open(os.path.join(HERE, "seeded", sid, "meta.json"), encoding="utf-8"))
        n += 1
        prop = meta.get("property", sid[:3])
        fired = r.get("fired", {})
        own += 1 if r.get("caught_by_own_property") else 0
        anyc += 1 if r.get("caught_by_any") else 0
        first = None
        if prop in fired:
            first = _first_rule(fired[prop])
        if not first or not first[0]:
            for q in sorted(fired):
                first = _first_rule(fired[q])
                if first[0]:
                    break
        others = sorted(q for q in fired if not (first and first[0] and first[0].startswith(q)))
        cell = "%s `%s`%s" % (first[0], first[2], " (fail-closed: undecidable)" if first[1] == "undecidable" else "") if first and first[0] else "**missed**"
        out.append("| %s | %s | %s | %s |" % (sid, meta.get("title", "").replace("|", "/"), cell, ", ".join(others) or "–"))
    out.append("")
    out.append("%d seeded changes; %d reported by some check, %d by the check of the property they were written against." % (n, anyc, own))
    return "\n".join(out)


def refactor_table():
    res = json.load(open(os.path.join(HERE, "refactorings", "RESULTS.json"), encoding="utf-8"))
    out = ["| refactoring | kind | result |", "|---|---|---|"]
    bad = 0
    for rid in sorted(res):
        meta = json.load(open(os.path.join(HERE, "refactorings", rid, "meta.json"), encoding="utf-8"))
        alarms = res[rid]
        if alarms:
            bad += 1
        out.append("| %s %s | %s | %s |" % (rid, meta.get("title", "").replace("|", "/"), (meta.get("kind") or "").replace("|", "/")[:140],
                                          "silent" if not alarms else "**ALARM** " + ", ".join(sorted(alarms))))
    out.append("")
    out.append("%d behaviour-preserving refactorings, %d raise an alarm." % (len(res), bad))
    return "\n".join(out)


def main():
    p = os.path.join(HERE, "DESIGN.md")
    s = open(p, encoding="utf-8").read()
    for name, fn in (("rules-table", rules_table), ("seeded-table", seeded_table), ("refactor-table", refactor_table)):
        a, b = "<!-- BEGIN %s -->" % name, "<!-- END %s -->" % name
        if a in s and b in s:
            s = s[:s.index(a) + len(a)] + "\n" + fn() + "\n" + s[s.index(b):]
    open(p, "w", encoding="utf-8").write(s)


if __name__ == "__main__":
    main()
